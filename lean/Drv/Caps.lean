import Verif.Util.Proto
import Verif.Model.Caps
/-! Driver for stream `caps` (C25): `caps <engine> <history>  =>  <obs tx1>|…`.
The machine `Verif.Model.Caps` is the spec: every difference is a VIOLATION, classified by the kind of
the first operation whose observation differs. -/
open Verif.Proto Verif.Model.Caps

def parseT : String → Option T
  | "S" => some .s | "S2" => some .s2 | "I" => some .i | "Any" => some .any | _ => none

def parseVal (s : String) : Option (T × Int) :=
  match s.toList with
  | 's' :: rest => (String.ofList rest).toInt?.map fun x => (T.s, x)
  | 't' :: rest => (String.ofList rest).toInt?.map fun x => (T.s2, x)
  | _ => none

/-- sub-operation of a held controller reference (`hr`): `r<p>` retarget, `t<tag>` setTag, `g` read,
`q<p>` getControllers(forPath:) in between, `d` delete (last only).  The machine has no held references:
every use of the reference is the machine's operation on the controller id — that a reference loaded once
behaves like a fresh `getController` at every use is part of what the stream compares. -/
def parseSub (a id : Nat) (s : String) : Option Op :=
  match s.toList with
  | 'r' :: rest => do some (.retarget a id (← (String.ofList rest).toNat?))
  | 't' :: rest => some (.setTag a id (String.ofList rest))
  | ['g'] => some (.getController a id)
  | 'q' :: rest => do some (.getControllers a (← (String.ofList rest).toNat?))
  | ['d'] => some (.delete a id)
  | _ => none

def isDelete : Op → Bool
  | .delete .. => true
  | _ => false

/-- one operation token = one or several machine operations (one log line each) -/
def parseOp (s : String) : Option (List Op) :=
  match s.splitOn "," with
  | ["is", a, p, t] => do some [.issue (← a.toNat?) (← p.toNat?) (← parseT t)]
  | ["im", a, p, t, n] => do
    let n ← n.toNat?
    if n = 0 || n > 200 then none else some (List.replicate n (.issue (← a.toNat?) (← p.toNat?) (← parseT t)))
  | ["rt", a, id, p] => do some [.retarget (← a.toNat?) (← id.toNat?) (← p.toNat?)]
  | ["hr", a, id, subs] => do
    let a ← a.toNat?
    let id ← id.toNat?
    let ops ← (subs.splitOn ".").mapM (parseSub a id)
    -- nothing is called on the reference after `delete` (it would be an error of the program)
    if ops.isEmpty || (ops.dropLast.any isDelete) then none else some ops
  | ["dl", a, id] => do some [.delete (← a.toNat?) (← id.toNat?)]
  | ["tg", a, id, t] => do some [.setTag (← a.toNat?) (← id.toNat?) t]
  | ["gc", a, id] => do some [.getController (← a.toNat?) (← id.toNat?)]
  | ["gs", a, p] => do some [.getControllers (← a.toNat?) (← p.toNat?)]
  | ["fe", a, p] => do some [.forEachController (← a.toNat?) (← p.toNat?)]
  | ["pb", a, id, q] => do some [.publish (← a.toNat?) (← id.toNat?) (← q.toNat?)]
  | ["ub", a, q] => do some [.unpublish (← a.toNat?) (← q.toNat?)]
  | ["ex", a, q] => do some [.exists_ (← a.toNat?) (← q.toNat?)]
  | ["gp", a, q, t] => do some [.get (← a.toNat?) (← q.toNat?) (← parseT t)]
  | ["bp", a, q, t] => do some [.borrow (← a.toNat?) (← q.toNat?) (← parseT t)]
  | ["cb", a, q, g, w] => do some [.getBorrow (← a.toNat?) (← q.toNat?) (← parseT g) (← parseT w)]
  | ["rp", a, q, g, q2] => do some [.republish (← a.toNat?) (← q.toNat?) (← parseT g) (← q2.toNat?)]
  | ["kb", a, id, w] => do some [.ctrlBorrow (← a.toNat?) (← id.toNat?) (← parseT w)]
  | ["ip", a, id, n, r] => do some [.inboxPublish (← a.toNat?) (← id.toNat?) n (← r.toNat?)]
  | ["iu", a, n, t] => do some [.inboxUnpublish (← a.toNat?) n (← parseT t)]
  | ["ic", a, n, pv, t] => do some [.inboxClaim (← a.toNat?) n (← pv.toNat?) (← parseT t)]
  | ["sv", a, p, v] => do
    let (t, x) ← parseVal v
    some [.save (← a.toNat?) (← p.toNat?) t x]
  | ["ld", a, p] => do some [.load (← a.toNat?) (← p.toNat?)]
  | ["pn"] => some [.panic]
  | _ => none

def parseHist (s : String) : Option (List (List Op)) :=
  (s.splitOn "|").mapM fun tx => do
    let groups ← (tx.splitOn ";").mapM parseOp
    some groups.flatten

def tyStr : T → String
  | .s => "&C.S" | .s2 => "&C.S2" | .i => "&{C.I}" | .any => "&AnyStruct"

def insertSortedNat (x : Nat) : List Nat → List Nat
  | [] => [x]
  | y :: ys => if x ≤ y then x :: y :: ys else y :: insertSortedNat x ys

/-- what the generated transaction reads through the borrowed `&w` -/
def showRef (w : T) (v : T × Int) : String :=
  match w with
  | .s | .s2 => toString v.2
  | .i => toString (v.2 + 1000)
  | .any => (match v.1 with | .s => "C.S" | .s2 => "C.S2" | _ => "?")

def showObs (op : Op) : Obs → String
  | .id n => toString n
  | .done => (match op with
    | .retarget .. => "rt" | .delete .. => "dl" | .setTag .. => "tg" | .publish .. => "pb"
    | .inboxPublish .. => "ip" | .save .. => "sv" | .republish .. => "rp" | _ => "?")
  | .nil => "nil"
  | .ctrl id c => s!"{id}:/storage/p{c.target}:{tyStr c.ty}:{c.tag}"
  | .ids l => "[" ++ " ".intercalate ((l.foldr insertSortedNat []).map toString) ++ "]"
  | .optId none => "nil"
  | .optId (some n) => toString n
  | .bool b => toString b
  | .got id ck => toString id ++ (if ck then "+" else "-")
  | .ref none => "none"
  | .ref (some v) => (match op with | .borrow _ _ w => showRef w v | _ => "?")
  | .capRef id none => s!"{id}:-:none"
  | .capRef id (some v) =>
    (match op with
      | .getBorrow _ _ _ w | .ctrlBorrow _ _ w => s!"{id}:+:{showRef w v}"
      | _ => "?")

def showAbort : Abort → String
  | .overwrite => "overwrite" | .cast => "cast" | .panic => "panic" | .internal => "internal"

def zipShow : List Op → List Obs → List String
  | op :: ops, o :: os => showObs op o :: zipShow ops os
  | _, _ => []

def showTx (tx : List Op) (o : TxObs) : String :=
  (match o.outcome with | none => "ok" | some e => "err:" ++ showAbort e)
    ++ "[" ++ ";".intercalate (zipShow tx o.logs) ++ "]"

def opKind : Op → String
  | .issue .. => "issue" | .retarget .. => "retarget" | .delete .. => "delete" | .setTag .. => "setTag"
  | .getController .. => "getController" | .getControllers .. => "getControllers"
  | .forEachController .. => "forEachController" | .publish .. => "publish" | .unpublish .. => "unpublish"
  | .exists_ .. => "exists" | .get .. => "get" | .borrow .. => "borrow" | .inboxPublish .. => "inboxPublish"
  | .inboxUnpublish .. => "inboxUnpublish" | .inboxClaim .. => "inboxClaim" | .save .. => "save"
  | .load .. => "load" | .panic => "panic" | .getBorrow .. => "getBorrow" | .republish .. => "republish"
  | .ctrlBorrow .. => "ctrlBorrow"

def obsTag (op : Op) (o : Obs) : String :=
  opKind op ++ (match op with | .getBorrow _ _ g w => (if g = w then "" else "-retyped") | _ => "") ++ (match o with
    | .nil | .optId none | .ref none => "-nil" | .bool true => "-true" | .bool false => "-false"
    | .ids [] => "-empty" | .ids (_ :: _ :: _) => "-many" | .got 0 _ => "-invalid" | .got _ false => "-nocheck"
    | .capRef 0 _ => "-invalid" | .capRef _ none => "-nocheck"
    | _ => "-ok")

def txTags (tx : List Op) (o : TxObs) : List String :=
  let ts := (tx.zip o.logs).map fun (op, ob) => obsTag op ob
  match o.outcome with
  | none => "commit" :: ts
  | some e => (match tx.drop o.logs.length with
      | op :: _ => [opKind op ++ "-abort-" ++ showAbort e] | [] => []) ++ ts

def dedup (xs : List String) : List String := xs.foldl (fun acc x => if acc.contains x then acc else acc ++ [x]) []

def splitTxObs (s : String) : String × List String :=
  match s.splitOn "[" with
  | head :: rest =>
    let body := "[".intercalate rest
    let body := if body.endsWith "]" then (body.dropEnd 1).toString else body
    (head, if body.isEmpty then [] else body.splitOn ";")
  | [] => (s, [])

/-- the logs contain `[` `]` themselves (id lists): split on the first `[` only and `;` -/
def firstDiff (hist : List (List Op)) (model go : List String) : String :=
  let rec goTx : List (List Op) → List String → List String → Nat → String
    | tx :: txs, m :: ms, g :: gs, i =>
      if m == g then goTx txs ms gs (i + 1) else
        let (mh, ml) := splitTxObs m
        let (gh, gl) := splitTxObs g
        let rec goOp : List Op → List String → List String → String
          | op :: ops, a :: as, b :: bs => if a == b then goOp ops as bs else opKind op ++ "-wrong-result"
          | op :: _, _, _ => opKind op ++ "-wrong-outcome"
          | [], _, _ => "tx-wrong-outcome"
        let c := goOp tx ml gl
        if gh.startsWith "err:internal" || gh.startsWith "err:crash" then s!"go-panic-or-internal tx{i} {c}"
        else if mh != gh && ml == gl then
          (match tx.drop ml.length with | op :: _ => opKind op | [] => "tx") ++ s!"-wrong-outcome tx{i}"
        else s!"{c} tx{i}"
    | _, _, _, _ => "tx-count"
  goTx hist model go 0

def judge (op : List String) (go : String) : Verdict :=
  match op with
  | ["caps", _engine, h] =>
    match parseHist h with
    | none => .skip "bad-op"
    | some hist =>
      let (_, obs) := runHist init hist
      let rendered := (hist.zip obs).map fun (tx, o) => showTx tx o
      let model := "|".intercalate rendered
      let shape := (if (h.splitOn "hr,").length > 1 then ["held-reference"] else [])
        ++ (if (h.splitOn "im,").length > 1 then ["many-controllers"] else [])
      let tags := dedup (shape ++ (hist.zip obs).flatMap fun (tx, o) => txTags tx o)
      if go == model then .ok ("!nt" :: tags)
      else
        let d := firstDiff hist rendered (go.splitOn "|")
        match d.splitOn " " with
        | cls :: rest => .violation cls ("machine: " ++ model ++ " (" ++ " ".intercalate rest ++ ")") tags
        | [] => .violation "wrong-observation" model tags
  | _ => .skip "unknown-op"

def main : IO Unit := runDriver judge
