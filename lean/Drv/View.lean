import Verif.Util.Proto
import Verif.Model.Lang3.PurityRead
/-!
Driver for the stream `view` (C07).

  view prog <label> forms=<..> <sx> <src>
     => purity-errors=<n> other-errors=<k> …   |   accepted <obs interp> @@ <obs vm> @@ <obs vm+peephole>
        obs = ok:["<dump before>","<dump after>"]|<logs>|<events>

Static: the number of `PurityError`s reported by the checker must equal `purityErrors` of the port
(MODELDIFF otherwise).  Dynamic, direct oracle on accepted programs whose method `target` is `view`
(function 0 of the table), judged on the Go observation alone:
  * `view-mutates-preexisting`  — the dump of the pre-existing values after the call differs from the dump
    before it (the dump also covers the array handed to the initializer of `W`);
  * `view-function-emits-event` — the host received an event (known finding: `emit` is accepted in view
    context);
and the model's effect log of the call must be clean exactly as `frame_partial` states.
-/
open Verif.Proto Verif.Model.Lang3.Purity

def parseCount (s key : String) : Option Nat :=
  match (s.splitOn (key ++ "=")) with
  | _ :: rest :: _ => ((rest.takeWhile Char.isDigit).toString).toNat?
  | _ => none

/-- `ok:["a","b"]|logs|events` → (a, b, events non-empty) -/
def parseRun (o : String) : Option (String × String × Bool) :=
  match o.splitOn "|" with
  | [out, _, evs] =>
    if !out.startsWith "ok:[" then none else
    match (((out.drop 4).dropEnd 1).toString).splitOn "," with
    | parts =>
      -- the dumps contain commas: split the rendered array at `","`
      match (((out.drop 4).dropEnd 1).toString).splitOn "\",\"" with
      | [a, b] => some ((a.drop 1).toString, (b.dropEnd 1).toString, !evs.isEmpty)
      | _ => let _ := parts; none
  | _ => none

def judge (op : List String) (go : String) : Verdict :=
  match op with
  | _ :: "prog" :: _ =>
    let sx := op.getD 4 ""
    let forms := ((op.getD 3 "").drop 6).toString.splitOn "," |>.filter (· ≠ "")
    match readProgram sx with
    | none => .skip "sx-unreadable"
    | some p =>
      let n := purityErrors p
      let targetView := match p[0]? with | some f => f.purity == .view | none => false
      let tags := forms ++ [if n == 0 then "accepted" else "rejected", if targetView then "view-target" else "impure-target", "!nt"]
      if go.startsWith "purity-errors=" then
        let g := (parseCount go "purity-errors").getD 0
        let o := (parseCount go "other-errors").getD 0
        if o > 0 then .skip "other-checker-errors"
        else if g ≠ n then .modelDiff ("purity-errors=" ++ toString n) tags
        else .ok tags
      else if go.startsWith "accepted " then
        match ((go.drop 9).toString).splitOn " @@ " with
        | [oi, ov, oo] =>
          let initView := match p[6]? with | some f => f.purity == .view | none => false
          -- the dump is `<values reachable by target>#<array handed to W's initializer>`: each part is
          -- compared only when the function that could reach it is `view`
          let proj := fun (d : String) =>
            match d.splitOn "#" with
            | [a, b] => (if targetView then a else "") ++ "#" ++ (if initView then b else "")
            | _ => d
          let effs := (if targetView then run p 8 0 else []) ++ (if initView then run p 8 6 else [])
          let clean := effs.all fun e => e == .freshWrite || e == .event
          match parseRun oi, parseRun ov, parseRun oo with
          | some (b1, a1, e1), some (b2, a2, e2), some (b3, a3, e3) =>
            -- direct oracles first (independent of the model)
            if proj b1 ≠ proj a1 || proj b2 ≠ proj a2 || proj b3 ≠ proj a3 then
              .violation "view-mutates-preexisting" ("dump after = dump before = " ++ b1) tags
            else if targetView && (e1 || e2 || e3) then
              .violation "view-function-emits-event" "an accepted view function delivers no event" tags
            else if n ≠ 0 then .modelDiff ("purity-errors=" ++ toString n) tags
            else if (targetView || initView) && !clean then .modelDiff "model-effects-not-clean" tags
            else if targetView && effs.contains .event then .modelDiff "model-expects-event" tags
            else .ok tags
          | _, _, _ =>
            if n ≠ 0 then .modelDiff ("purity-errors=" ++ toString n) tags
            else if oi == ov && ov == oo then .skip "run-did-not-complete" else .violation "engines-differ" oi tags
        | _ => .skip "bad-go-result"
      else .skip "bad-go-result"
  | _ => .skip "unknown-op"

def main : IO Unit := runDriver judge
