import Verif.Util.Proto
import Verif.Model.Lang2.Eval
/-!
Driver for the layer-L2 streams `copysem` (C05), `resown` (C02), `refinv` (C04), `nointernal` (C01).

op:  `<stream> <label> <key=value>* forms=<f,…> <source>`
go:  `<sx> @@ <obs interp> @@ <obs vm>`,  obs = `<outcome>|<log;log;…>|<event;event;…>`

Direct oracles (independent of the model, judged first, on every line — also on programs outside the
model's fragment):
  all streams  `go-internal-error`  an engine ended with an internal / unexpected error, an escaped
                                    panic or a timeout although the checker accepted the program
               `engines-differ`     interpreter observation ≠ VM observation
  copysem      `copy-aliased`       the dump of the untouched side differs before / after the mutations
  resown       `moved-resource-still-usable`, `uuid-twice`, `resource-lost`, `resource-duplicated`, … (see `resCensus`)
               directed multi-account family (`gen=multiacct`): `destroy-event-count-wrong`,
               `directed-scenario-failed` (see `multiCensus`; judged against the expected event multiset
               carried in the op line, no model run)
  refinv       `stale-reference-usable`, `valid-reference-unusable`  (see `refOracle`)
               programs of the families outside the model's fragment (attachments, `for` over a reference
               to an array of references) that pass these oracles answer `OK … oracle-only` (judged
               against the generator's specification in both engines, no model run)
Then the model: the S-expression of the checked program is read and run; its observation must equal
the interpreter's.
-/
open Verif.Proto Verif.Model.Lang2

def cleanLog (l : String) : String := (l.replace ";" ",").replace "|" "/"

def insertSorted (s : String) : List String → List String
  | [] => [s]
  | x :: xs => if s ≤ x then s :: x :: xs else x :: insertSorted s xs

def sortStrings (xs : List String) : List String := xs.foldl (fun acc s => insertSorted s acc) []

def renderOut (r : Res Val) : String × String :=
  let logs := ";".intercalate (r.tr.map cleanLog)
  let evs := ";".intercalate (sortStrings (r.st.events.map cleanLog))
  let tail := "|" ++ logs ++ "|" ++ evs
  match r.out with
  | .ok v => ("ok:" ++ renderVal v ++ tail, "ok")
  | .userErr k => ("user:" ++ k.name ++ tail, "e-" ++ k.name)
  | .internalErr k => ("internal:" ++ k.name ++ tail, "model-internal-" ++ k.name)
  | .outOfFuel => ("model-out-of-fuel" ++ tail, "model-out-of-fuel")
where
  renderVal : Val → String
    | .int k n => k.name ++ ":" ++ toString n
    | .bool b => if b then "true" else "false"
    | .str s => "\"" ++ s ++ "\""
    | .void => "void"
    | .nil => "nil"
    | _ => "?"

def field (op : List String) (key : String) : String :=
  match op.find? (·.startsWith (key ++ "=")) with
  | some f => (f.drop (key.length + 1)).toString
  | none => ""

structure Obs where
  out : String
  logs : List String
  events : List String

def parseObs (o : String) : Obs :=
  let sp := fun (s : String) => if s.isEmpty then [] else s.splitOn ";"
  match o.splitOn "|" with
  | out :: logs :: evs :: _ => ⟨out, sp logs, sp evs⟩
  | [out, logs] => ⟨out, sp logs, []⟩
  | [out] => ⟨out, [], []⟩
  | [] => ⟨"", [], []⟩

/-- the log lines between marker `"=a"` and the next marker -/
def section_ (logs : List String) (marker : String) : List String :=
  let m := "\"=" ++ marker ++ "\""
  ((logs.dropWhile (· ≠ m)).drop 1).takeWhile (fun l => !(l.startsWith "\"="))

def isBad (out : String) : Bool :=
  out.startsWith "internal:" || out.startsWith "crash:" || out.startsWith "other:" || out == "panic" || out == "hang"

/- shape of the known finding `conditional-result-not-boxed` (recorded under C34 / C52): optional
    chaining on a conditional expression; the interpreter ends in an internal MemberAccessTypeError -/
mutual
partial def exprHasUnboxedCond : Expr → Bool
  | .coalesce _ (.cond ..) _ => true
  | .member true _ (.cond ..) _ => true
  | .mcall true (.cond ..) _ _ => true
  | .unary _ e | .destroy e | .move e | .force e | .ref _ e | .cast _ e | .save _ e | .member _ _ e _ => exprHasUnboxedCond e
  | .binary _ a b | .and a b | .or a b | .coalesce _ a b | .index _ a b => exprHasUnboxedCond a || exprHasUnboxedCond b
  | .cond c t e => exprHasUnboxedCond c || exprHasUnboxedCond t || exprHasUnboxedCond e
  | .call _ as | .create _ as | .array _ as => as.any exprHasUnboxedCond
  | .dict _ _ es => es.any fun kv => exprHasUnboxedCond kv.1 || exprHasUnboxedCond kv.2
  | .mcall _ r _ as | .bcall r _ as => exprHasUnboxedCond r || as.any exprHasUnboxedCond
  | _ => false
partial def stmtHasUnboxedCond : Stmt → Bool
  | .decl _ _ _ e | .expr e | .ret (some e) => exprHasUnboxedCond e
  | .decl2 _ _ _ t e | .assign _ t _ e => exprHasUnboxedCond t || exprHasUnboxedCond e
  | .swap l _ r _ => exprHasUnboxedCond l || exprHasUnboxedCond r
  | .ite c t e => exprHasUnboxedCond c || t.any stmtHasUnboxedCond || (e.getD []).any stmtHasUnboxedCond
  | .iflet _ _ c t e => exprHasUnboxedCond c || t.any stmtHasUnboxedCond || (e.getD []).any stmtHasUnboxedCond
  | .while c b => exprHasUnboxedCond c || b.any stmtHasUnboxedCond
  | _ => false
end

def programHasUnboxedCond (p : Program) : Bool :=
  p.funs.any (·.body.any stmtHasUnboxedCond) ||
  p.comps.any fun sd => sd.methods.any (·.body.any stmtHasUnboxedCond) ||
    (match sd.init with | some (_, b) => b.any stmtHasUnboxedCond | none => false)

/-- the log entries following each marker line `m`: `k` lines per occurrence -/
def afterMarker (logs : List String) (m : String) (k : Nat) : List (List String) :=
  match logs with
  | [] => []
  | l :: rest => if l == m then rest.take k :: afterMarker rest m k else afterMarker rest m k

def countOf (x : String) (xs : List String) : Nat := (xs.filter (· == x)).length

def hasDupS : List String → Bool
  | [] => false
  | a :: rest => rest.contains a || hasDupS rest

/-- tags of the destruction events `R.ResourceDestroyed(tag: k)` -/
def destroyedTags (evs : List String) : List String :=
  evs.filterMap fun e =>
    if e.startsWith "R.ResourceDestroyed(tag: " && e.endsWith ")" then
      some ((e.drop "R.ResourceDestroyed(tag: ".length).dropEnd 1).toString
    else none

/-- C02 census on one engine's observation of a completed run: every created tag exactly once among
    the resources found in storage and the destruction events; no uuid twice -/
def resCensus (o : Obs) (engine : String) : Option Verdict :=
  -- probe programs: the use of a moved resource's old location (through a reference taken before the
  -- move) must fail; the program logs "=stale" when it did not
  if o.logs.contains "\"=stale\"" then
    some (.violation "moved-resource-still-usable" ("the use of a moved resource through its old location fails (" ++ engine ++ ")") [])
  else
  if !o.out.startsWith "ok:" then none else
  let created := (afterMarker o.logs "\"C\"" 1).map (·.headD "?")
  let walked := afterMarker o.logs "\"W\"" 2
  let wtags := walked.map (·.headD "?")
  let uuids := walked.map (fun e => (e.drop 1).headD "?")
  let dtags := destroyedTags o.events
  if hasDupS uuids then some (.violation "uuid-twice" ("uuids of live resources pairwise distinct (" ++ engine ++ ")") [])
  else
    match created.find? (fun t => countOf t wtags + countOf t dtags != 1) with
    | some t =>
      if countOf t wtags + countOf t dtags == 0 then
        some (.violation "resource-lost" ("created resource " ++ t ++ " is stored or destroyed (" ++ engine ++ ")") [])
      else some (.violation "resource-duplicated" ("created resource " ++ t ++ " exactly once among stored + destroyed (" ++ engine ++ ")") [])
    | none =>
      if (wtags ++ dtags).any (fun t => !created.contains t) then
        some (.violation "resource-from-nowhere" ("only created resources are stored / destroyed (" ++ engine ++ ")") [])
      else if dtags.length != o.events.length then
        some (.violation "destroy-event-shape" ("only default destruction events (" ++ engine ++ ")") [])
      else none

/-- C04 oracle: the generator's specification says which uses succeed (and what they log) and whether
    the last use must fail with the invalidated-reference error -/
def refOracle (op : List String) (o : Obs) (engine : String) : Option Verdict :=
  let expect := field op "expect"
  let tags := ((field op "tags").splitOn ",").filter (· ≠ "")
  let uses := section_ o.logs "use"
  let want := if expect == "ok" then "ok:Int:0" else
    "user:" ++ (if expect == "invalidated" then "invalidated-reference" else expect)
  if o.out == want && uses == tags then none
  -- references to non-resource values nested in a moved resource are not invalidated by the unchanged
  -- tree: the use succeeds, reads an emptied container, or fails with another user error
  else if ((field op "forms").splitOn ",").contains "ref-nested-struct" then
    some (.violation "nested-non-resource-reference-not-invalidated" ("outcome " ++ want ++ " (" ++ engine ++ ")") [])
  else if expect != "ok" && o.out.startsWith "ok:" then
    some (.violation "stale-reference-usable" ("outcome " ++ want ++ " (" ++ engine ++ ")") [])
  else if o.out == "user:invalidated-reference" && (expect == "ok" || uses.length < tags.length) then
    some (.violation "valid-reference-unusable" ("the references whose referent has not moved stay usable (" ++ engine ++ ")") [])
  else some (.violation "reference-wrong-outcome" ("outcome " ++ want ++ " logging " ++ ",".intercalate tags ++ " (" ++ engine ++ ")") [])

/-- per-stream direct oracle on the interpreter's and the VM's observation -/
def streamOracle (stream : String) (op : List String) (o : Obs) (engine : String) : Option Verdict :=
  match stream with
  | "copysem" =>
    if !o.out.startsWith "ok:" then none else
    let u := field op "untouched"
    if section_ o.logs (u ++ "0") ≠ section_ o.logs (u ++ "1") then
      some (.violation "copy-aliased" ("dump of the untouched side " ++ u ++ " unchanged by the mutations (" ++ engine ++ ")") [])
    else none
  | "resown" => resCensus o engine
  | "refinv" => refOracle op o engine
  | _ => none

/-- C02, directed multi-account family (`gen=multiacct`, see harness/internal/lang2/multi.go): the op line
    carries the expected multiset of destruction events (`expect=`, full type ids: one event per destroyed
    resource and declared `ResourceDestroyed` — own + each inherited); an engine's run must complete and
    emit exactly these.  Independent of the model (contracts / interfaces are outside its fragment). -/
def multiCensus (op : List String) (o : Obs) (engine : String) : Option Verdict :=
  let label := (op.drop 1).headD "?"
  let expect := ((field op "expect").splitOn ";").filter (· ≠ "")
  if o.out != "ok" then
    some (.violation "directed-scenario-failed" ("scenario " ++ label ++ " completes (" ++ engine ++ "): " ++ o.out) [])
  else
    match expect.find? (fun e => countOf e o.events != countOf e expect) with
    | some e =>
      some (.violation "destroy-event-count-wrong"
        ("scenario " ++ label ++ ": " ++ e ++ " emitted exactly " ++ toString (countOf e expect) ++ " time(s), got " ++
          toString (countOf e o.events) ++ " (" ++ engine ++ ")") [])
    | none =>
      match o.events.find? (fun e => !expect.contains e) with
      | some e =>
        some (.violation "destroy-event-count-wrong"
          ("scenario " ++ label ++ ": no event beside the declared destruction events of the destroyed resources, got " ++ e ++
            " (" ++ engine ++ ")") [])
      | none => none

def judgeMulti (op : List String) (i v : Obs) (tags0 : List String) : Verdict :=
  match multiCensus op i "interp" with
  | some verdict => verdict
  | none =>
    -- known finding (VM only): a destruction event inherited through an interface of a contract that the
    -- resource's contract does not import itself
    if tags0.contains "shape-chain" && v.out.startsWith "internal:" then
      .violation "vm-inherited-destroy-event-of-unimported-contract" "no internal error for a checker-accepted program (vm)" tags0
    else if isBad v.out then
      .violation "go-internal-error" ("no internal error / crash for a checker-accepted program; vm=" ++ v.out) tags0
    else
      match multiCensus op v "vm" with
      | some verdict => verdict
      | none => .ok ("!nt" :: "oracle-only" :: ("events-" ++ toString i.events.length) :: tags0)

def judge (op : List String) (go : String) : Verdict :=
  let stream := op.headD ""
  match go.splitOn " @@ " with
  | [sx, oi, ov] =>
    let gen := field op "gen"
    let tags0 := (if gen.isEmpty then [] else ["gen-" ++ gen]) ++ ((field op "forms").splitOn ",").filter (· ≠ "")
    let i := parseObs oi
    let v := parseObs ov
    if gen == "multiacct" then judgeMulti op i v tags0 else
    if sx.startsWith "reject:" then .skip "rejected-by-checker" else
    let prog := if sx.startsWith "oof:" then none else readProgram sx
    -- direct oracles
    if isBad i.out || isBad v.out then
      let srcLines := ((op.getLast?.getD "").splitOn "\\n").map (fun l => l.trimAscii.toString)
      let selfSwap := srcLines.any fun l =>
        match l.splitOn " <-> " with
        | [a, b] => a == b && !a.isEmpty
        | _ => false
      let bothInvalidated := i.out == "internal:invalidated-resource" && v.out == "internal:invalidated-resource"
      if (prog.map programHasUnboxedCond).getD false && i.out == "internal:member-type" && !isBad v.out then
        .violation "conditional-result-not-boxed" "no internal error for a checker-accepted program" tags0
      -- `v <-> v` on a resource variable: both engines end in the internal InvalidatedResourceError
      else if bothInvalidated && selfSwap then
        .violation "resource-self-swap" "no internal error for a checker-accepted program" tags0
      -- a post-condition inherited from an interface reads a resource parameter that the implementation
      -- has moved / destroyed: both engines end in the internal InvalidatedResourceError
      else if bothInvalidated && srcLines.any (·.contains "interface") && srcLines.any (·.startsWith "post {") then
        .violation "inherited-post-condition-reads-moved-resource" "no internal error for a checker-accepted program" tags0
      else .violation "go-internal-error" ("no internal error / crash for a checker-accepted program; interp=" ++ i.out ++ " vm=" ++ v.out) tags0
    -- (stream nointernal is about internal errors only; engine equivalence is C34's stream)
    else if oi ≠ ov && stream != "nointernal" then
      .violation "engines-differ" ("vm observation = interpreter observation = " ++ oi) tags0
    else
      match (streamOracle stream op i "interp").orElse (fun _ => streamOracle stream op v "vm") with
      | some verdict => verdict
      | none =>
      if sx.startsWith "oof:" || gen == "wild" || gen == "casts" || tags0.contains "ref-nested-struct" then
        (if stream == "nointernal" then .ok ("!nt" :: "oracle-only" :: ("out-" ++ (i.out.takeWhile (· ≠ ':')).toString) :: tags0)
         else if stream == "refinv" && sx.startsWith "oof:" && !(field op "expect").isEmpty then
           .ok ("!nt" :: "oracle-only" :: ("out-" ++ (i.out.takeWhile (· ≠ '|')).toString) :: tags0)
         else .skip ("out-of-fragment:" ++ (sx.drop 4).toString))
      else if i.out.startsWith "user:computation-limit" then .skip "computation-limit"
      else
        match prog with
        | none => .skip "sx-unreadable"
        | some p =>
          let r := run p 3000
          let (m, tag) := renderOut r
          if tag == "model-out-of-fuel" then .skip tag
          else if m != oi then .modelDiff m (tag :: tags0)
          else .ok ("!nt" :: tag :: tags0)
  | _ => .skip "bad-go-result"

def main : IO Unit := runDriver judge
