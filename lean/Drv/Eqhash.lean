import Verif.Util.Proto
import Verif.Model.Val.Hashable
/-! Driver for stream `eqhash` (C18).  Ops: `pair a b`, `triple a b c`, `key engine a b`, `prims`.
Value / type syntax: see `harness/cmd/vharness/stream_eqhash.go`. -/
open Verif.Proto Verif.Model.Val

inductive SX where
  | atom (s : String)
  | list (xs : List SX)
  deriving Inhabited

def tokenize (s : String) : List String :=
  let s := (s.replace "(" " ( ").replace ")" " ) "
  (s.splitOn " ").filter (· ≠ "")

/-- parse one expression; returns the rest of the tokens -/
partial def parseSX : List String → Option (SX × List String)
  | [] => none
  | "(" :: rest =>
    let rec items (ts : List String) (acc : List SX) : Option (SX × List String) :=
      match ts with
      | [] => none
      | ")" :: rest => some (.list acc.reverse, rest)
      | ts => match parseSX ts with
        | some (x, rest) => items rest (x :: acc)
        | none => none
    items rest []
  | ")" :: _ => none
  | t :: rest => some (.atom t, rest)

def parseField (s : String) : Option SX :=
  match parseSX (tokenize s) with
  | some (x, []) => some x
  | _ => none

def hexOf (s : String) : Option Bytes := parseHex s

def parseIDs : List SX → Option (List Bytes)
  | [] => some []
  | .atom h :: rest => do let b ← hexOf h; let r ← parseIDs rest; pure (b :: r)
  | _ => none

def parseAuth : SX → Option Auth
  | .atom "u" => some .unauth
  | .list (.atom "conj" :: ids) => (parseIDs ids).map (Auth.set false)
  | .list (.atom "disj" :: ids) => (parseIDs ids).map (Auth.set true)
  | .list [.atom "m", .atom h] => (hexOf h).map Auth.map
  | _ => none

partial def parseTy : SX → Option STy
  | .atom "cap" => some .cap0
  | .atom a =>
    match a.splitOn ":" with
    | ["p", h] => (hexOf h).map STy.prim
    | ["c", h] => (hexOf h).map STy.comp
    | ["i", h] => (hexOf h).map STy.iface
    | _ => none
  | .list [.atom "opt", t] => (parseTy t).map STy.opt
  | .list [.atom "va", t] => (parseTy t).map STy.varr
  | .list [.atom "ca", .atom n, t] => do let n ← n.toInt?; let t ← parseTy t; pure (.carr n t)
  | .list [.atom "d", k, v] => do let k ← parseTy k; let v ← parseTy v; pure (.dict k v)
  | .list (.atom "x" :: ids) => (parseIDs ids).map STy.inter
  | .list [.atom "r", a, t] => do let a ← parseAuth a; let t ← parseTy t; pure (.ref a t)
  | .list [.atom "cap", t] => (parseTy t).map STy.cap
  | .list [.atom "rng", t] => (parseTy t).map STy.range
  | _ => none

def parseKind : String → Option NumKind
  | "Int" => some .int | "Int8" => some .int8 | "Int16" => some .int16 | "Int32" => some .int32
  | "Int64" => some .int64 | "Int128" => some .int128 | "Int256" => some .int256
  | "UInt" => some .uint | "UInt8" => some .uint8 | "UInt16" => some .uint16 | "UInt32" => some .uint32
  | "UInt64" => some .uint64 | "UInt128" => some .uint128 | "UInt256" => some .uint256
  | "Word8" => some .word8 | "Word16" => some .word16 | "Word32" => some .word32
  | "Word64" => some .word64 | "Word128" => some .word128 | "Word256" => some .word256
  | "Fix64" => some .fix64 | "Fix128" => some .fix128 | "UFix64" => some .ufix64 | "UFix128" => some .ufix128
  | _ => none

mutual
partial def parseVal : SX → Option Val
  | .atom "B0" => some (.bool false)
  | .atom "B1" => some (.bool true)
  | .atom "nil" => some .nil
  | .atom "T:_" => some (.type none)
  | .atom a =>
    match a.splitOn ":" with
    | ["S", _, h] => (hexOf h).map Val.str
    | ["C", _, h] => (hexOf h).map Val.char
    | ["A", h] => (hexOf h).map Val.addr
    | ["P", d, h] => do let d ← d.toNat?; let i ← hexOf h; pure (.path d i)
    | ["N", k, n] => do let k ← parseKind k; let n ← n.toInt?; pure (.num k n)
    | ["E", t, k, n] => do let t ← hexOf t; let k ← parseKind k; let n ← n.toInt?; pure (.enum t k n)
    | _ => none
  | .list [.atom "T", t] => (parseTy t).map (fun t => Val.type (some t))
  | .list [.atom "some", v] => (parseVal v).map Val.some
  | .list (.atom "arr" :: t :: vs) => do let t ← parseTy t; let vs ← parseVals vs; pure (.arr t vs)
  | .list (.atom "dict" :: t :: kvs) => do let t ← parseTy t; let es ← parseEntries kvs; pure (.dict t es)
  | _ => none
partial def parseVals : List SX → Option (List Val)
  | [] => some []
  | x :: rest => do let v ← parseVal x; let r ← parseVals rest; pure (v :: r)
partial def parseEntries : List SX → Option (List (Val × Val))
  | [] => some []
  | k :: v :: rest => do let k ← parseVal k; let v ← parseVal v; let r ← parseEntries rest; pure ((k, v) :: r)
  | _ => none
end

def bit (b : Bool) : String := if b then "1" else "0"

def hashStr (v : Val) : String :=
  match hashInput v with
  | some bs => toHex bs
  | none => "x"

/-- Go calls the comparison methods only for two values of the same Go type -/
def cmpStr (a b : Val) : String :=
  if comparable a b then bit (lt a b) ++ bit (le a b) ++ bit (gt a b) ++ bit (ge a b) else "-"

/-- branch label of a value -/
partial def kindTag : Val → String
  | .bool _ => "bool" | .str _ => "str" | .char _ => "char" | .addr _ => "addr" | .path .. => "path"
  | .num k _ => (match k.enc with | .signedMin => "num-smin" | .unsignedMin => "num-umin" | .fixed n => s!"num-fixed{n}")
  | .enum .. => "enum" | .type none => "type-unknown"
  | .type (some t) => (match t with
      | .inter _ => "type-inter" | .ref (.set ..) _ => "type-ref-set" | .ref .. => "type-ref" | .prim _ => "type-prim"
      | _ => "type-other")
  | .nil => "nil" | .some v => "some-" ++ kindTag v | .arr .. => "arr" | .dict .. => "dict"

/-- well-formed (type members listed once; no unknown type value; dictionaries are not judged by the
law oracles for reflexivity of unknown types only) -/
partial def hasUnknownType : Val → Bool
  | .type none => true
  | .some v => hasUnknownType v
  | .arr _ vs => vs.any hasUnknownType
  | .dict _ es => es.any (fun kv => hasUnknownType kv.1 || hasUnknownType kv.2)
  | _ => false

/-- the assumptions of the C18 theorems about dictionary keys and enum type IDs, checked on every
generated value (an op outside them is skipped and counted: `SKIP assumption-…`) -/
partial def assumptionsHold : Val → Bool
  | .some v => assumptionsHold v
  | .arr _ vs => vs.all assumptionsHold
  | .dict t es => (Val.dict t es).keysOK && es.all (fun kv => assumptionsHold kv.1 && assumptionsHold kv.2)
  | v => v.idPrintable

def parse2 (a b : String) : Option (Val × Val) := do
  let a ← parseField a; let b ← parseField b
  let a ← parseVal a; let b ← parseVal b
  pure (a, b)

/-- split Go's `e:.... h:..,.. c:..,..` -/
def fieldsOf (go : String) : List (String × String) :=
  (go.splitOn " ").filterMap (fun f => match f.splitOn ":" with
    | k :: rest => some (k, ":".intercalate rest) | _ => none)

def getF (fs : List (String × String)) (k : String) : String := (fs.lookup k).getD ""

def charAt (s : String) (i : Nat) : Char := s.toList.getD i ' '

/-- law oracle on Go's answers alone for `pair` -/
def pairLaws (a b : Val) (go : String) : Option (String × String) :=
  let fs := fieldsOf go
  let e := getF fs "e"
  let h := (getF fs "h").splitOn ","
  let c := (getF fs "c").splitOn ","
  let ab := charAt e 0 == '1'; let ba := charAt e 1 == '1'
  let aa := charAt e 2 == '1'; let bb := charAt e 3 == '1'
  let ha := h.getD 0 ""; let hb := h.getD 1 ""
  let cab := c.getD 0 "-"; let cba := c.getD 1 "-"
  if ab != ba then some ("eq-not-symmetric", "Equal(a,b) = Equal(b,a)")
  else if (!aa && !hasUnknownType a) || (!bb && !hasUnknownType b) then some ("eq-not-reflexive", "Equal(a,a)")
  else if (!aa && hasUnknownType a) || (!bb && hasUnknownType b) then none  -- recorded region, judged below
  else if ab && ha != "x" && hb != "x" && ha != hb then some ("hash-differs-for-equal-keys", "HashInput(a) = HashInput(b)")
  else if !ab && ha != "x" && ha == hb then some ("hash-collision-of-unequal-keys", "HashInput(a) ≠ HashInput(b)")
  else if cab != "-" && cba != "-" then
    let ltab := charAt cab 0 == '1'; let leab := charAt cab 1 == '1'
    let gtab := charAt cab 2 == '1'; let geab := charAt cab 3 == '1'
    let ltba := charAt cba 0 == '1'; let leba := charAt cba 1 == '1'
    let gtba := charAt cba 2 == '1'; let geba := charAt cba 3 == '1'
    let n := (if ltab then 1 else 0) + (if ab then 1 else 0) + (if ltba then 1 else 0)
    if n != 1 then some ("order-not-trichotomous", "exactly one of a<b, a==b, b<a")
    else if leab != (ltab || ab) || leba != (ltba || ab) then some ("le-inconsistent", "a<=b iff a<b or a==b")
    else if gtab != ltba || gtba != ltab then some ("gt-inconsistent", "a>b iff b<a")
    else if geab != leba || geba != leab then some ("ge-inconsistent", "a>=b iff b<=a")
    else none
  else none

def judge (op : List String) (go : String) : Verdict :=
  match op with
  | ["eqhash", "prims"] =>
    if go.startsWith "ok:" then .ok ["prims"]
    else .violation "primitive-type-id-not-injective" "PrimitiveStaticType.Equal iff equal IDs" ["prims"]
  | ["eqhash", "pair", sa, sb] =>
    match parse2 sa sb with
    | none => .skip "bad-op"
    | some (a, b) =>
      if !(assumptionsHold a && assumptionsHold b) then .skip "assumption-keys-or-id" else
      let m := "e:" ++ bit (eq a b) ++ bit (eq b a) ++ bit (eq a a) ++ bit (eq b b) ++
        " h:" ++ hashStr a ++ "," ++ hashStr b ++ " c:" ++ cmpStr a b ++ "," ++ cmpStr b a
      let tags := [kindTag a, kindTag b, if eq a b then "eq" else "ne"]
      let tags := if comparable a b then (if lt a b then "lt" else if lt b a then "gt" else "cmp-eq") :: tags else tags
      let nt := if sa != sb then ["!nt"] else []
      if go == "panic" || go == "hang" then .violation "go-panic-or-internal" "total" tags else
      match pairLaws a b go with
      | some (cls, req) => .violation cls req tags
      | none => if go == m then .ok (nt ++ tags) else .modelDiff m tags
  | ["eqhash", "triple", sa, sb, sc] =>
    match parse2 sa sb, (parseField sc).bind parseVal with
    | some (a, b), some c =>
      if !(assumptionsHold a && assumptionsHold b && assumptionsHold c) then .skip "assumption-keys-or-id" else
      let m := "e:" ++ bit (eq a b) ++ bit (eq b c) ++ bit (eq a c) ++
        " c:" ++ cmpStr a b ++ "," ++ cmpStr b c ++ "," ++ cmpStr a c
      let tags := [kindTag a, kindTag b, kindTag c, if eq a b && eq b c then "chain-eq" else "chain-broken"]
      if go == "panic" || go == "hang" then .violation "go-panic-or-internal" "total" tags else
      let fs := fieldsOf go
      let e := getF fs "e"
      let cs := (getF fs "c").splitOn ","
      let ab := charAt e 0 == '1'; let bc := charAt e 1 == '1'; let ac := charAt e 2 == '1'
      let l (i : Nat) : Option Bool := let s := cs.getD i "-"; if s == "-" then none else some (charAt s 0 == '1')
      if ab && bc && !ac then .violation "eq-not-transitive" "Equal(a,b) and Equal(b,c) imply Equal(a,c)" tags
      else if l 0 == some true && l 1 == some true && l 2 != some true then
        .violation "lt-not-transitive" "a<b and b<c imply a<c" tags
      else if go == m then .ok ("!nt" :: tags) else .modelDiff m tags
    | _, _ => .skip "bad-op"
  | ["eqhash", "key", _engine, sa, sb] =>
    match parse2 sa sb with
    | none => .skip "bad-op"
    | some (a, b) =>
      let tags := [kindTag a, kindTag b, if eq a b then "key-eq" else "key-ne"]
      if !go.startsWith "ok:" then .violation "go-panic-or-internal" "script runs" tags else
      match (go.drop 3).toString.splitOn ":" with
      | [e, rest] =>
        -- spec, from Go's own Equal: equal keys are one entry and either finds it
        let want := if e == "1" then "1,2,2,1,1" else "2,1,2,0,2"
        if rest != want then .violation "dictionary-key-law" ("ok:" ++ e ++ ":" ++ want) tags
        else if e == bit (eq a b) then .ok ("!nt" :: tags)
        else .modelDiff ("ok:" ++ bit (eq a b) ++ ":…") tags
      | _ => .skip "bad-go"
  | _ => .skip "unknown-op"

def main : IO Unit := runDriver judge
