import Verif.Util.Proto
import Verif.Model.Types.Subtype
import Verif.Model.Types.SubStruct
import Verif.Model.Types.Wf
import Verif.Model.Types.CoherentB
import Verif.Gen.SubtypeRules
/-! Driver for stream `types` (C08): ops `sub A B`, `refl A`, `bounds A`, `trans A B C`; types in the
    Polish notation of `stream_types.go`.  The model is the interpretation of the *regenerated* rules;
    the structured relation `Struct.sub` (the one the transitivity theorems are about) is judged against
    the Go relations on every line as well: a disagreement is a MODELDIFF (`st=`). -/
open Verif.Proto Verif.Model.Types Verif.Model.Auth

def rules := Verif.Gen.SubtypeRules.rules

def parseKind : String → Option Kind
  | "struct" => some .struct | "resource" => some .resource | "contract" => some .contract
  | "enum" => some .enum | "attachment" => some .attachment | "event" => some .event | _ => none

def parseNames (s : String) : List String := if s == "-" then [] else s.splitOn ","

def parseAuth (s : String) : Option (Access String) :=
  if s == "u" then some unauthorized
  else if s.startsWith "c:" then some (.set .conj ((s.drop 2).toString.splitOn ","))
  else if s.startsWith "d:" then some (.set .disj ((s.drop 2).toString.splitOn ","))
  else none

mutual
def parseTy : Nat → List String → Option (Ty × List String)
  | 0, _ => none
  | fuel + 1, toks =>
    match toks with
    | "p" :: n :: rest => some (.prim n, rest)
    | "o" :: rest => (parseTy fuel rest).map (fun (t, r) => (.opt t, r))
    | "va" :: rest => (parseTy fuel rest).map (fun (t, r) => (.varArr t, r))
    | "ca" :: n :: rest => match n.toNat? with
      | some n => (parseTy fuel rest).map (fun (t, r) => (.constArr t n, r))
      | none => none
    | "d" :: rest => match parseTy fuel rest with
      | some (k, r) => (parseTy fuel r).map (fun (v, r') => (.dict k v, r'))
      | none => none
    | "r" :: a :: rest => match parseAuth a with
      | some a => (parseTy fuel rest).map (fun (t, r) => (.ref a t, r))
      | none => none
    | "comp" :: name :: kind :: confs :: base :: rest =>
      (parseKind kind).map (fun k => (.comp name k (parseNames confs) (base == "1"), rest))
    | "if" :: name :: kind :: confs :: rest =>
      (parseKind kind).map (fun k => (.iface { name := name, kind := k, confs := parseNames confs }, rest))
    | "in" :: n :: rest => match n.toNat? with
      | some n => (parseIfaces fuel n rest).map (fun (is, r) => (.inter is, r))
      | none => none
    | "f" :: purity :: n :: rest => match n.toNat? with
      | some n => match parseParams fuel n rest with
        | some (ps, r) => (parseTy fuel r).map (fun (ret, r') => (.fn (purity == "view") ps ret, r'))
        | none => none
      | none => none
    | "capany" :: rest => some (.capAny, rest)
    | "cap" :: rest => (parseTy fuel rest).map (fun (t, r) => (.cap t, r))
    | "rng" :: rest => (parseTy fuel rest).map (fun (t, r) => (.range t, r))
    | _ => none
def parseIfaces : Nat → Nat → List String → Option (List Iface × List String)
  | 0, _, _ => none
  | _ + 1, 0, rest => some ([], rest)
  | fuel + 1, n + 1, toks => match parseTy fuel toks with
    | some (.iface i, r) => (parseIfaces fuel n r).map (fun (is, r') => (i :: is, r'))
    | _ => none
def parseParams : Nat → Nat → List String → Option (Ty × List String)
  | 0, _, _ => none
  | _ + 1, 0, rest => some (.nilT, rest)
  | fuel + 1, n + 1, toks => match parseTy fuel toks with
    | some (t, r) => (parseParams fuel n r).map (fun (ps, r') => (.consT t ps, r'))
    | none => none
end

def parseType (s : String) : Option Ty :=
  let toks := (s.splitOn " ").filter (· != "")
  match parseTy (toks.length + 1) toks with
  | some (t, []) => some t
  | _ => none

/-- the declared interfaces `N IF..` -/
def parseDecls (s : String) : Option (List Iface) :=
  let toks := (s.splitOn " ").filter (· != "")
  match toks with
  | n :: rest => match n.toNat? with
    | some n => match parseIfaces (toks.length + 1) n rest with
      | some (is, []) => some is
      | _ => none
    | none => none
  | [] => none

def bit (b : Bool) : String := if b then "1" else "0"

def headTag : Ty → String
  | .prim _ => "prim" | .opt _ => "opt" | .varArr _ => "varArr" | .constArr .. => "constArr" | .dict .. => "dict"
  | .ref .. => "ref" | .comp .. => "comp" | .iface _ => "iface" | .inter _ => "inter" | .fn .. => "fn"
  | .capAny => "cap" | .cap _ => "cap" | .range _ => "range" | _ => "other"

def optNever : Ty → Bool
  | .opt t => t == never || optNever t
  | _ => false

/-- the shape of the known run-time/checker disagreement, possibly below covariant constructors:
    an optional of `Never` on the sub side against `AnyResource` on the super side -/
def optNeverVsAnyResource : Ty → Ty → Bool
  | .opt t, .opt s => optNeverVsAnyResource t s || (optNever (.opt t) && (.opt s : Ty) == .prim "AnyResource")
  | .opt t, s => optNever (.opt t) && s == .prim "AnyResource"
  | .varArr t, .varArr s => optNeverVsAnyResource t s
  | .constArr t _, .constArr s _ => optNeverVsAnyResource t s
  | .dict k v, .dict k' v' => optNeverVsAnyResource k k' || optNeverVsAnyResource v v'
  | .ref _ t, .ref _ s => optNeverVsAnyResource t s
  | .cap t, .cap s => optNeverVsAnyResource t s
  | _, _ => false

def fieldOf (go : String) (key : String) : String :=
  match (go.splitOn " ").find? (fun f => f.startsWith (key ++ "=")) with
  | some f => (f.drop (key.length + 1)).toString
  | none => ""

def allSame (s : String) : Bool := match s.toList with | [] => false | c :: cs => cs.all (· == c)

/-- `trans A B C` with the declarations `D`: the Go answers against the interpreted rules and the
    structured relation; `thm` tags the operations on which every hypothesis of `trans_kindstable_partial`
    holds (executable forms `cohB`/`goodB`, proved sufficient in `Proofs/SubCoh.lean`): there a failure of
    transitivity would contradict the theorem, outside the kind-stable region it is the known finding. -/
def judgeTrans (a b c : String) (D : List Iface) (go : String) : Verdict :=
  match parseType a, parseType b, parseType c with
  | some ta, some tb, some tc =>
    let ab := isSub rules (fuelFor ta tb) ta tb
    let bc := isSub rules (fuelFor tb tc) tb tc
    let ac := isSub rules (fuelFor ta tc) ta tc
    let m := bit ab ++ bit bc ++ bit ac
    let mSt := bit (Struct.sub ta tb) ++ bit (Struct.sub tb tc) ++ bit (Struct.sub ta tc)
    let ks := kindStable ta && stab false tc
    let good := cohB D && goodB D ta && goodB D tb && goodB D tc
    let tags := ["trans", "chain-" ++ bit ab ++ bit bc, (if ks then "kindstable" else "not-kindstable"),
                 (if good then "good" else "not-good")] ++ (if good && ks then ["thm"] else []) ++
                (if ab && bc then ["!nt"] else [])
    if go.toList.contains 'P' then .violation "go-panic-or-internal" "booleans" tags
    else if go == "110" then
      -- the known finding is what the *model* exhibits outside the theorem's region; a failure the
      -- interpreted rules do not reproduce, or one inside the region, is not it
      .violation (if !ks && m == "110" && mSt == "110" then "trans-never-under-container" else "trans-failure")
        "A <: B and B <: C imply A <: C" tags
    else if go == m && go == mSt then .ok tags else .modelDiff (m ++ " st=" ++ mSt) tags
  | _, _, _ => .skip "bad-type"

def judge (op : List String) (go : String) : Verdict :=
  match op with
  | ["types", "sub", a, b] =>
    match parseType a, parseType b with
    | some ta, some tb =>
      let fuel := fuelFor ta tb
      let mIs := isSub rules fuel ta tb
      let mChk := check rules fuel ta tb
      let mEq := semaEq ta tb     -- `sema.Type.Equal`
      let mSeq := ta == tb        -- `StaticType.Equal`
      let mSt := Struct.sub ta tb
      -- sema.IsSubType, interpreter.IsSubType, IsSubTypeOfSemaType in the model
      let mIss := bit mIs ++ bit (isSubRuntime rules fuel ta tb) ++ bit (isSubOfSema rules fuel ta tb)
      let tags := ["sub", "sub-" ++ headTag ta, "super-" ++ headTag tb, "r-" ++ bit mIs,
                   (if ta.wf && tb.wf then "wf" else "not-wf")] ++
        -- the region of `runtime_agrees_kindstable_partial`: run-time relation = checker's relation
        (if ta.wf && tb.wf && ta.noAny && kindStable ta then ["rt-thm"] else []) ++
        (if mIs && !mEq then ["!nt"] else [])
      let eq := fieldOf go "eq"; let seq := fieldOf go "seq"; let rt := fieldOf go "rt"
      let is := fieldOf go "is"; let chk := fieldOf go "chk"
      if (go.toList.contains 'P') then .violation "go-panic-or-internal" "a boolean" tags
      else if !allSame is && optNeverVsAnyResource ta tb && is == "011" && mIss == "011" then
        -- the model of the run-time relations (optionals unwrapped before asking) reproduces the disagreement,
        -- the sub type is an optional of `Never` against `AnyResource`, possibly below optionals on both sides
        .violation "runtime-optional-never-anyresource" "sema.IsSubType = interpreter.IsSubType = IsSubTypeOfSemaType" tags
      else if !allSame is then .violation "implementations-disagree" "sema.IsSubType = interpreter.IsSubType = IsSubTypeOfSemaType" tags
      else if eq == "0" && chk == "001" && optNeverVsAnyResource ta tb then
        .violation "runtime-optional-never-anyresource" "CheckSubTypeWithoutEquality = _gen (sema) = _gen (interpreter)" tags
      else if eq == "0" && !allSame chk then .violation "handwritten-generated-disagree" "CheckSubTypeWithoutEquality = _gen (sema) = _gen (interpreter)" tags
      else if eq == "1" && seq == "0" && mEq && !mSeq then
        -- intersections with the same effective set but different listed members: equal for the checker, different at run time
        .violation "static-equal-intersection-effective-set" "sema Equal = static Equal on corresponding types" tags
      else if eq != seq || rt != "1" then .violation "static-conversion" "sema -> static -> sema is the identity and preserves equality" tags
      else
        let m := "eq=" ++ bit mEq ++ " seq=" ++ bit mSeq ++ " is=" ++ mIss ++ " chk=" ++ bit mChk ++ " st=" ++ bit mSt
        if eq == bit mEq && seq == bit mSeq && is == mIss && (eq == "1" || chk.take 1 == bit mChk) && is.take 1 == bit mSt then .ok tags
        else .modelDiff m tags
    | _, _ => .skip "bad-type"
  | ["types", "refl", a] =>
    match parseType a with
    | some ta =>
      let m := isSub rules (fuelFor ta ta) ta ta && Struct.sub ta ta
      let tags := ["refl", "t-" ++ headTag ta, "!nt"]
      if go != "111" then .violation "refl-failure" "T <: T in every implementation" tags
      else if m then .ok tags else .modelDiff "0" tags
    | none => .skip "bad-type"
  | ["types", "bounds", a] =>
    match parseType a with
    | some ta =>
      let m := isSub rules (fuelFor ta ta) never ta && isSub rules (fuelFor ta ta) ta any &&
        Struct.sub never ta && Struct.sub ta any
      let tags := ["bounds", "t-" ++ headTag ta, "!nt"]
      if go != "111 111" then .violation "bounds-failure" "Never <: T <: Any in every implementation" tags
      else if m then .ok tags else .modelDiff "0" tags
    | none => .skip "bad-type"
  | ["types", "decls", d] =>
    match parseDecls d with
    | some D =>
      if cohB D then .ok ["decls", "coherent", "!nt"]
      else .violation "declarations-incoherent" "unique interface names, conformance sets transitively closed within one kind" ["decls"]
    | none => .skip "bad-decls"
  | ["types", "trans", a, b, c] => judgeTrans a b c [] go
  | ["types", "trans", a, b, c, d] =>
    match parseDecls d with
    | some D => judgeTrans a b c D go
    | none => .skip "bad-decls"
  | _ => .skip "unknown-op"

def main : IO Unit := runDriver judge
