import Verif.Util.Proto
import Verif.Model.UpdateRead
/-! Driver for stream `update` (C27).

`update v <names> <oldSX> <newSX> <oldSrc> <newSrc>  =>  ok | err:<sorted kinds>`: the model's
`validate` on the S-expressions of the parsed programs must report the same multiset of error kinds. -/
open Verif.Proto Verif.Model.Update

def insertSorted (x : String) : List String → List String
  | [] => [x]
  | y :: ys => if x ≤ y then x :: y :: ys else y :: insertSorted x ys
def sortStrings (xs : List String) : List String := xs.foldr insertSorted []

def renderErrs (es : List Err) : String :=
  if es.isEmpty then "ok" else "err:" ++ ",".intercalate (sortStrings (es.map Err.name))

def dedup (xs : List String) : List String := xs.foldl (fun acc x => if acc.contains x then acc else acc ++ [x]) []

def lastName (n : Nominal) : String := (n.id :: n.nested).getLast?.getD n.id

/-- independent executable oracle (does not use `validate`): in an accepted update every enum nested
in the contract keeps its cases as a prefix, every conformance of a nested composite or interface is kept
(by its last identifier), and every field a nested composite declares was declared before (by name) -/
def specOk (o n : Decl) : Option String :=
  let kids := fun (d : Decl) => d.composites ++ d.attachments ++ d.interfaces
  (kids o).findSome? fun oc =>
    match (kids n).find? (fun nc => nc.name == oc.name) with
    | none => none
    | some nc =>
      if oc.kind == .enum && !(oc.cases.isPrefixOf nc.cases) then some "accepted-update-changes-enum-meaning"
      else if oc.kind == nc.kind && oc.kind != .attachment && oc.kind != .enum &&
          oc.confs.any (fun c => !(nc.confs.any fun c' => lastName c' == lastName c)) then
        some (if oc.kind.isInterface then "interface-conformance-removal-accepted" else "accepted-update-drops-conformance")
      else if nc.fields.any (fun nf => !(oc.fields.any (fun f => f.name == nf.name))) && nc.kind == oc.kind then
        some "accepted-update-adds-field"
      else none

def judgeV (names oldSX newSX go : String) : Verdict :=
  if oldSX == "-" || newSX == "-" then .skip "parse-error" else
  match SX.parse oldSX >>= readProgram, SX.parse newSX >>= readProgram with
  | some o, some n =>
    let es := validate (readAccountNames names) o n
    let model := renderErrs es
    let tags := dedup (es.map Err.name)
    let tags := if es.isEmpty then ["accepted"] else tags
    let viol := if go == "ok" then (match o.root, n.root with | some a, some b => specOk a b | _, _ => none) else none
    match viol with
    | some cls => .violation cls "stored values must stay usable (enum cases keep their raw values; no new fields)" tags
    | none =>
      if go == model then .ok ("!nt" :: tags)
      else .modelDiff model tags
  | _, _ => .skip "unreadable-sx"

/-- an interface declaration nested in the root lost one of its conformances (by identifier) -/
def ifaceConformanceDropped (o n : Decl) : Bool :=
  o.interfaces.any fun oi =>
    match n.interfaces.find? (fun ni => ni.name == oi.name) with
    | none => false
    | some ni => oi.confs.any fun oc => !(ni.confs.any fun nc => lastName nc == lastName oc)

/-- `update e2e …`: the full path (deploy old, store values, update, inspect the stored values with the
new code).  Direct oracle, independent of the model: an accepted update after which a check of the stored
values fails (`accepted bad=…`) violates the property.  Otherwise the outcome of `contracts.update` is
compared with the model's verdict. -/
def judgeE2E (oldSX newSX go : String) : Verdict :=
  if oldSX == "-" || newSX == "-" then .skip "parse-error" else
  match SX.parse oldSX >>= readProgram, SX.parse newSX >>= readProgram with
  | some o, some n =>
    -- account 0x1 holds only the contract itself
    let es := validate [("0000000000000001", ["C"])] o n
    let model := renderErrs es
    let tags := "e2e" :: (if es.isEmpty then ["accepted"] else dedup (es.map Err.name))
    if go.startsWith "setup:" then .skip ("e2e-" ++ ((go.splitOn ":").getD 1 "setup"))
    else if go.startsWith "notchecked:" then .skip "e2e-new-code-rejected-by-checker"
    else if go.startsWith "accepted bad=" then
      let cls := match o.root, n.root with
        | some a, some b => if ifaceConformanceDropped a b then "interface-conformance-removal-accepted" else "stored-value-unusable-after-accepted-update"
        | _, _ => "stored-value-unusable-after-accepted-update"
      .violation cls "after an accepted update every stored value loads, has the declared fields, keeps its enum case and its interfaces" tags
    else if go.startsWith "accepted " then
      if es.isEmpty then .ok ("!nt" :: tags) else .modelDiff model tags
    else if go.startsWith "rejected:" then
      if "err:" ++ (go.drop 9).toString == model then .ok ("!nt" :: tags) else .modelDiff model tags
    else .modelDiff model tags
  | _, _ => .skip "unreadable-sx"

def judge (op : List String) (go : String) : Verdict :=
  match op with
  | ["update", "v", names, oldSX, newSX, _, _] => judgeV names oldSX newSX go
  | ["update", "e2e", _, oldSX, newSX, _, _, _, _] => judgeE2E oldSX newSX go
  | _ => .skip "unknown-op"

def main : IO Unit := runDriver judge
