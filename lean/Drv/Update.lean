import Verif.Util.Proto
import Verif.Model.UpdateRead
/-! Driver for stream `update` (C27).

`update v <names> <oldSX> <newSX> <oldSrc> <newSrc>  =>  ok | err:<sorted kinds>`: the model's
`validate` on the S-expressions of the parsed programs must report the same multiset of error kinds. -/
open Verif.Proto Verif.Model.Update

def insertSorted (x : String) : List String → List String
  | [] => [x]
  | y :: ys => if x ≤ y then x :: y :: ys else y :: insertSorted x ys
def sortStrings (xs : List String) : List String := xs.foldr insertSorted []

def renderErrs (es : List Err) : String :=
  if es.isEmpty then "ok" else "err:" ++ ",".intercalate (sortStrings (es.map Err.name))

def dedup (xs : List String) : List String := xs.foldl (fun acc x => if acc.contains x then acc else acc ++ [x]) []

def judgeV (names oldSX newSX go : String) : Verdict :=
  if oldSX == "-" || newSX == "-" then .skip "parse-error" else
  match SX.parse oldSX >>= readProgram, SX.parse newSX >>= readProgram with
  | some o, some n =>
    let es := validate (readAccountNames names) o n
    let model := renderErrs es
    let tags := dedup (es.map Err.name)
    let tags := if es.isEmpty then ["accepted"] else tags
    if go == model then .ok ("!nt" :: tags)
    else .modelDiff model tags
  | _, _ => .skip "unreadable-sx"

def judge (op : List String) (go : String) : Verdict :=
  match op with
  | ["update", "v", names, oldSX, newSX, _, _] => judgeV names oldSX newSX go
  | _ => .skip "unknown-op"

def main : IO Unit := runDriver judge
