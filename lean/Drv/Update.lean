import Verif.Util.Proto
import Verif.Model.UpdateRead
/-! Driver for stream `update` (C27).

`update v <names> <oldSX> <newSX> <oldSrc> <newSrc>  =>  ok | err:<sorted kinds>`: the model's
`validate` on the S-expressions of the parsed programs must report the same multiset of error kinds. -/
open Verif.Proto Verif.Model.Update

def insertSorted (x : String) : List String → List String
  | [] => [x]
  | y :: ys => if x ≤ y then x :: y :: ys else y :: insertSorted x ys
def sortStrings (xs : List String) : List String := xs.foldr insertSorted []

def renderErrs (es : List Err) : String :=
  if es.isEmpty then "ok" else "err:" ++ ",".intercalate (sortStrings (es.map Err.name))

def dedup (xs : List String) : List String := xs.foldl (fun acc x => if acc.contains x then acc else acc ++ [x]) []

/-- independent executable oracle (does not use `validate`): in an accepted update every enum nested
in the contract keeps its cases as a prefix, and every field a nested composite declares was declared
before (by name) -/
def specOk (o n : Decl) : Option String :=
  let kids := fun (d : Decl) => d.composites ++ d.attachments ++ d.interfaces
  (kids o).findSome? fun oc =>
    match (kids n).find? (fun nc => nc.name == oc.name) with
    | none => none
    | some nc =>
      if oc.kind == .enum && !(oc.cases.isPrefixOf nc.cases) then some "accepted-update-changes-enum-meaning"
      else if nc.fields.any (fun nf => !(oc.fields.any (fun f => f.name == nf.name))) && nc.kind == oc.kind then
        some "accepted-update-adds-field"
      else none

def judgeV (names oldSX newSX go : String) : Verdict :=
  if oldSX == "-" || newSX == "-" then .skip "parse-error" else
  match SX.parse oldSX >>= readProgram, SX.parse newSX >>= readProgram with
  | some o, some n =>
    let es := validate (readAccountNames names) o n
    let model := renderErrs es
    let tags := dedup (es.map Err.name)
    let tags := if es.isEmpty then ["accepted"] else tags
    let viol := if go == "ok" then (match o.root, n.root with | some a, some b => specOk a b | _, _ => none) else none
    match viol with
    | some cls => .violation cls "stored values must stay usable (enum cases keep their raw values; no new fields)" tags
    | none =>
      if go == model then .ok ("!nt" :: tags)
      else .modelDiff model tags
  | _, _ => .skip "unreadable-sx"

def judge (op : List String) (go : String) : Verdict :=
  match op with
  | ["update", "v", names, oldSX, newSX, _, _] => judgeV names oldSX newSX go
  | _ => .skip "unknown-op"

def main : IO Unit := runDriver judge
