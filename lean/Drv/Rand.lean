import Verif.Util.Proto
import Verif.Model.Random
/-! Driver for stream `rand` (C47).
  `rand one <Ty> <modulo|-> <source hex> <direct|interp|vm>`  => `ok:<v>:<calls>:<size>` | `zero` | `exhausted:<calls>`
  `rand hist <Ty> <modulo> <L>`  => `hist:vals=<n>:min=<c>:max=<c>:bad=<n>:exh=<n>` over all sources of length L -/
open Verif.Proto Verif.Model.Random

def parseTy : String → Option Ty
  | "UInt8" => some .u8 | "UInt16" => some .u16 | "UInt32" => some .u32 | "UInt64" => some .u64
  | "UInt128" => some .u128 | "UInt256" => some .u256
  | "Word8" => some .w8 | "Word16" => some .w16 | "Word32" => some .w32 | "Word64" => some .w64
  | "Word128" => some .w128 | "Word256" => some .w256
  | _ => none

def renderOut : Out → String
  | .ok v d s => s!"ok:{v}:{d}:{s}"
  | .zeroModulo => "zero"
  | .exhausted d => s!"exhausted:{d}"
  | .goPanic => "panic"
  | .diverge => "hang"

def isPow2 (n : Nat) : Bool := n != 0 && (n &&& (n - 1)) == 0

def modTag : Option Nat → String
  | none => "mod-none"
  | some 0 => "mod-zero"
  | some 1 => "mod-one"
  | some m => if isPow2 m then "mod-pow2" else if isPow2 (m - 1) then "mod-pow2+1" else if isPow2 (m + 1) then "mod-pow2-1" else "mod-other"

def outTags : Out → List String
  | .ok _ d s => [if d == 1 then "draws-1" else if d == 2 then "draws-2" else "draws-3+", s!"bs-{s}"]
  | .zeroModulo => ["zero"]
  | .exhausted d => [if d == 0 then "exhausted-0" else "exhausted-after-reject"]
  | .goPanic => ["m-panic"]
  | .diverge => ["m-diverge"]

/-- value field of a Go `ok:v:calls:size` observation -/
def goValue (go : String) : Option Nat :=
  match go.splitOn ":" with
  | ["ok", v, _, _] => v.toNat?
  | _ => none

/-- histogram of the model over all sources of length `L`: (distinct values, min count, max count,
    values ≥ m, exhausted) -/
def modelHist (ty : Ty) (m L : Nat) : String := Id.run do
  let mut counts : Array Nat := Array.replicate m 0
  let mut bad := 0
  let mut exh := 0
  for src in allBytes L do
    match revertibleRandom ty (some m) src with
    | .ok v _ _ => if v < m then counts := counts.modify v (· + 1) else bad := bad + 1
    | .exhausted _ => exh := exh + 1
    | _ => bad := bad + 1
  let seen := counts.toList.filter (· != 0)
  let mn := seen.foldl min (seen.headD 0)
  let mx := seen.foldl max 0
  return s!"hist:vals={seen.length}:min={mn}:max={mx}:bad={bad}:exh={exh}"

def histField (go key : String) : Option Nat :=
  (go.splitOn ":").findSome? fun f =>
    match f.splitOn "=" with
    | [k, v] => if k == key then v.toNat? else none
    | _ => none

def judge (op : List String) (go : String) : Verdict :=
  match op with
  | ["rand", "one", tyS, mS, hex, _engine] =>
    match parseTy tyS, parseHex hex, (if mS == "-" then some none else mS.toNat?.map some) with
    | some ty, some src, some (modulo : Option Nat) =>
      if (modulo.getD 0) ≥ 2 ^ (8 * ty.byteSize) then .skip "modulo-not-in-type" else
      let mo := revertibleRandom ty modulo src
      let m := renderOut mo
      let tags := [tyS, modTag modulo] ++ outTags mo
      let nt := match mo with | .ok _ d _ => d ≥ 2 || (modulo.getD 0) > 1 | .exhausted d => d ≥ 1 | _ => false
      let tags := if nt then "!nt" :: tags else tags
      -- spec, judged independently of the model
      if go == "spin" then
        .violation "does-not-terminate-without-consuming-source" "value-or-zero-modulo-user-error" tags
      else if go == "panic" || go == "hang" || go.startsWith "err" then
        .violation "go-panic-or-internal" "value-or-zero-modulo-user-error" tags
      else match modulo with
      | some 0 => if go == "zero" then (if go == m then .ok tags else .modelDiff m tags)
                  else .violation "zero-modulo-not-user-error" "zero" tags
      | some mm =>
        if go == "zero" then .violation "nonzero-modulo-rejected" "value<m" tags else
        match goValue go with
        | some v => if v ≥ mm then .violation "out-of-bound" s!"value<{mm}" tags
                    else if go == m then .ok tags else .modelDiff m tags
        | none => if go == m then .ok tags else .modelDiff m tags
      | none =>
        match goValue go with
        | some v =>
          if src.length ≥ ty.byteSize && v != beNat (src.take ty.byteSize) then
            .violation "no-modulo-not-identity" s!"{beNat (src.take ty.byteSize)}" tags
          else if go == m then .ok tags else .modelDiff m tags
        | none => if go == m then .ok tags else .modelDiff m tags
    | _, _, _ => .skip "bad-op"
  | ["rand", "hist", tyS, mS, lS] =>
    match parseTy tyS, mS.toNat?, lS.toNat? with
    | some ty, some m, some L =>
      if m == 0 || m ≥ 2 ^ (8 * ty.byteSize) || L > 2 then .skip "hist-domain" else
      let mh := modelHist ty m L
      let tags := ["!nt", "hist", tyS, modTag (some m), s!"L-{L}"]
      match histField go "vals", histField go "min", histField go "max", histField go "bad" with
      | some vals, some mn, some mx, some bad =>
        -- exact uniformity: every value below m is produced by the same number of sources
        if bad != 0 then .violation "out-of-bound" "bad=0" tags
        else if vals != 0 && (vals != m || mn != mx) then .violation "biased" s!"vals={m},min=max" tags
        else if go == mh then .ok tags else .modelDiff mh tags
      | _, _, _, _ => .violation "go-panic-or-internal" "histogram" tags
    | _, _, _ => .skip "bad-op"
  | _ => .skip "unknown-op"

def main : IO Unit := runDriver judge
