import Verif.Util.Proto
import Verif.Model.Num.Types
import Verif.Model.Num.Convert
import Verif.Spec.Conv
/-! Driver for stream `conv` (C16): `conv <mode> <srcT> <raw> <tgtT> <round|->`; mode `d` = Go converter
    called directly, `si` / `sv` = Cadence script in the interpreter / VM.  Go result `ok:<raw>`,
    `err:overflow`, `err:underflow`, anything else is a crash / wrong error class. -/
open Verif.Proto Verif.Model.NumT Verif.Model.Convert Verif.Spec.Conv

def renderR : Except CErr Int → String
  | .ok v => "ok:" ++ toString v
  | .error e => "err:" ++ e.name

/-- Go satisfies the spec: same value, or a range error (overflow / underflow, the property does not
    say which) where the spec requires a failure -/
def agreesWithSpec (spec : Except CErr Int) (go : String) : Bool :=
  match spec with
  | .ok v => go == "ok:" ++ toString v
  | .error _ => go == "err:overflow" || go == "err:underflow"

def srcTag (t : NumTy) : String :=
  if t.fixed then "src-" ++ t.name else if isBigNumber t then "src-big" else "src-native"

def tgtTag (t : NumTy) : String :=
  match t.kind with
  | .sint => if t.bits = 0 then "tgt-Int" else if t.bits ≤ 64 then "tgt-sint-native" else "tgt-sint-big"
  | .uint => if t.bits = 0 then "tgt-UInt" else if t.bits ≤ 64 then "tgt-uint-native" else "tgt-uint-big"
  | .word => if t.bits ≤ 64 then "tgt-word-native" else "tgt-word-big"
  | _ => "tgt-" ++ t.name

/-- narrow classes of recorded findings (known_findings.d/C16.json) -/
def classify (src tgt : NumTy) (raw : Int) (round : Option Rounding) (spec : Except CErr Int) (go : String) : String :=
  if round.isSome && (src == .fix128 || src == .ufix128) && (tgt == .fix64 || tgt == .ufix64)
      && raw != 0 && (match spec with | .ok 0 => true | _ => false) && go == "err:underflow" then
    "narrowing-rounds-to-zero-underflow"
  else if go == "err:overflow" || go == "err:underflow" then "spurious-range-error"
  else if go.startsWith "ok:" then "wrong-value"
  else "go-panic-or-internal"

def judge (op : List String) (go : String) : Verdict :=
  match op with
  | ["conv", mode, srcS, rawS, tgtS, roundS] =>
    match NumTy.ofName? srcS, rawS.toInt?, NumTy.ofName? tgtS with
    | some src, some raw, some tgt =>
      let round : Option (Option Rounding) :=
        if roundS == "-" then some none else (Rounding.ofName? roundS).map some
      match round with
      | none => .skip "bad-rounding"
      | some round =>
        if ¬ src.inRange raw then .skip "source-out-of-range" else
        if round.isSome && !(tgt == .fix64 || tgt == .ufix64) then .skip "rounding-not-accepted" else
        let spec := specConvert src tgt raw (round.getD .towardZero)
        let model := convert tgt src raw round
        let outcome := match model with | .ok _ => "m-ok" | .error e => "m-" ++ e.name
        let tags := [srcTag src, tgtTag tgt, outcome, "mode-" ++ mode] ++
          (match round with | some r => ["round-" ++ r.name] | none => []) ++
          (if raw < 0 && src.fixed && raw % (10 : Int) ^ src.scale != 0 then ["neg-fractional"] else [])
        let tags := if src != tgt then "!nt" :: tags else tags
        if ¬ agreesWithSpec spec go then
          .violation (classify src tgt raw round spec go) (renderR spec) tags
        else if go == renderR model then .ok tags
        else .modelDiff (renderR model) tags
    | _, _, _ => .skip "bad-op"
  | _ => .skip "unknown-op"

def main : IO Unit := runDriver judge
