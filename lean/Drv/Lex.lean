import Verif.Util.Proto
import Verif.Model.Front.Lexer
import Verif.Spec.LineCol
/-! Driver for stream `lex`: op `lex hex(input1) [hex(input2) ...]`; the Go result is one group per input
(`ok|err-limit|err-other tok ... [eof@off:line:col]`, groups separated by ` ;; `).  The model lexes every
input from the initial state (a pooled lexer after `clear()`), so a difference on a later input of a line
also shows state leaking from one use of the pooled object into the next.

Besides the token-by-token comparison with the port, the Go tokens are judged against the specification
directly (independent of the port): offsets contiguous from 0, within the input, line/column of every token
equal to `Spec.lineCol` of its offset.  The two documented column defects are recognised by narrow predicates
(`column-after-multibyte-token-end`, `column-after-empty-string-token`). -/
open Verif.Proto Verif.Model.Front Verif.Model.Front.Lexer Verif.Spec.LineCol

def showPos (o : Int) (p : Pos) : String := toString o ++ ":" ++ toString p.line ++ ":" ++ toString p.column

def showTok (t : Token) : String :=
  " " ++ toString t.ty ++ "@" ++ showPos t.startOff t.startPos ++ "-" ++ showPos t.endOff t.endPos ++ (if t.nl then "n" else "")

def fnv1a (s : String) : UInt64 :=
  s.toUTF8.foldl (fun h b => (h ^^^ b.toUInt64) * 1099511628211) 14695981039346656037

def hexU64 (n : UInt64) : String :=
  let ds := (Nat.toDigits 16 n.toNat)
  String.ofList ds

def maxShown : Nat := 3000

def renderResult (r : Result) : String × List String :=
  let toks := r.tokens
  let status := match r.stop, r.final.err with
    | .outOfFuel, _ => "hang"
    | _, some .tokenLimit => "err-limit"
    | _, some _ => "err-other"
    | _, none => "ok"
  let eof := if r.final.err.isSome then "" else
    match r.eofToken with
    | some (o, p) => " eof@" ++ showPos o p
    | none => " eof-panic"
  let body := String.join (toks.map showTok)
  let shown := if toks.length > maxShown then " #" ++ toString toks.length ++ "/" ++ hexU64 (fnv1a body) else body
  let tags := (match r.stop with
    | .done .root => ["end-root"] | .done (.blockComment _) => ["end-in-comment"] | .done _ => ["end-other"]
    | .panicked => ["end-panic"] | .outOfFuel => ["end-fuel"]) ++
    (if toks.any (fun t => t.ty = T.error) then ["error-token"] else []) ++
    (if toks.any (fun t => t.ty = T.stringTemplate) then ["template"] else []) ++
    (if toks.any (fun t => t.ty = T.blockCommentContent) then ["block-comment"] else []) ++
    (if toks.any (fun t => t.ty = T.lineComment) then ["line-comment"] else []) ++
    (if toks.any (fun t => t.ty = T.fixedPoint ∨ t.ty = T.unknownBase ∨ t.ty = T.hexadecimal ∨ t.ty = T.binary ∨ t.ty = T.octal) then ["number-prefix"] else []) ++
    (if toks.any (fun t => t.ty = T.asQuestionMark ∨ t.ty = T.asExclamationMark) then ["as-op"] else []) ++
    (if toks.any (fun t => t.endOff < t.startOff ∧ t.ty ≠ T.error) then ["empty-token"] else []) ++
    (if r.final.input.any (fun b => b ≥ 0x80) then ["non-ascii"] else []) ++
    (if toks.length > 1 then ["!nt"] else [])
  (status ++ shown ++ eof, tags)

/-- parse one Go token `ty@so:sl:sc-eo:el:ec[n]` -/
def parseTok (s : String) : Option Token :=
  let s' := if s.endsWith "n" then (s.dropEnd 1).toString else s
  match s'.splitOn "@" with
  | [ty, rest] =>
    match rest.splitOn "-" with
    | [a, b] =>
      match a.splitOn ":", b.splitOn ":" with
      | [so, sl, sc], [eo, el, ec] =>
        match ty.toNat?, so.toInt?, sl.toNat?, sc.toNat?, eo.toInt?, el.toNat?, ec.toNat? with
        | some ty, some so, some sl, some sc, some eo, some el, some ec =>
          some { ty, startOff := so, startPos := ⟨sl, sc⟩, endOff := eo, endPos := ⟨el, ec⟩, nl := s.endsWith "n" }
        | _, _, _, _, _, _, _ => none
      | _, _ => none
    | _ => none   -- (a negative end offset contains a second '-': not produced by the lexer; handled as unparsable)
  | _ => none

/-- Direct judgement of the Go token list of one input against the specification.
    Returns `none` when it satisfies it, else `(class, what the spec requires)`. -/
def specJudge (inp : Bytes) (goToks : List Token) (status : String) : Option (String × String) :=
  let len : Int := inp.size
  let rec go (ts : List Token) (expectStart : Int) (dirtyMb dirtyEmpty : Bool) : Option (String × String) :=
    match ts with
    | [] => none
    | t :: rest =>
      if t.ty = T.error then
        if t.startOff < 0 ∨ t.endOff ≥ len ∨ t.startOff > t.endOff then some ("position-out-of-range", "error token inside the input")
        else go rest expectStart dirtyMb dirtyEmpty
      else if t.startOff ≠ expectStart then some ("tokens-not-contiguous", "token starts at " ++ toString expectStart)
      else if t.endOff ≥ len ∨ t.endOff + 1 < t.startOff then some ("position-out-of-range", "token end offset < len")
      else
        let sp := lineCol inp t.startOff.toNat
        let startOk := t.startPos.line = sp.1 ∧ t.startPos.column = sp.2
        let empty := t.endOff < t.startOff
        let lastMb := !empty && byteAt inp t.endOff.toNat ≥ 0x80
        if t.startPos.line ≠ sp.1 then some ("wrong-line", "line " ++ toString sp.1)
        else if !startOk then
          -- column off: narrow classes for the two documented defects: an earlier token of the same line is the cause
          if dirtyMb then some ("column-after-multibyte-token-end", "column " ++ toString sp.2)
          else if dirtyEmpty then some ("column-after-empty-string-token", "column " ++ toString sp.2)
          else some ("wrong-column", "column " ++ toString sp.2)
        else
          let ep := if empty then sp else lineCol inp t.endOff.toNat
          if !empty ∧ !lastMb ∧ (t.endPos.line ≠ ep.1 ∨ t.endPos.column ≠ ep.2) then
            some ("wrong-end-position", toString ep.1 ++ ":" ++ toString ep.2)
          else if lastMb ∧ (t.endPos.line ≠ ep.1 ∨ t.endPos.column ≠ ep.2) then
            some ("column-after-multibyte-token-end", "end column " ++ toString ep.2)
          else
            -- a newline inside or at the end of the token resets the column bookkeeping
            let endsLine := !empty && byteAt inp t.endOff.toNat = 10
            go rest (t.endOff + 1) (if endsLine then false else dirtyMb || lastMb) (if endsLine then false else dirtyEmpty || empty)
  if status == "ok" || status == "err-limit" then go goToks 0 false false else none

def splitGroups (s : String) : List String := s.splitOn " ;; "

def judgeOne (hex : String) (go : String) : Verdict :=
  match parseHex hex with
  | none => .skip "bad-hex"
  | some bytes =>
    let inp : Bytes := bytes.toArray
    let r := lex inp
    let (m, tags) := renderResult r
    -- spec judgement on the Go tokens (when they are listed)
    let parts := (go.splitOn " ").filter (· ≠ "")
    let status := parts.headD ""
    let tokStrs := (parts.drop 1).filter (fun s => !(s.startsWith "eof@") && !(s.startsWith "#"))
    let goToks := tokStrs.filterMap parseTok
    let specV := if goToks.length = tokStrs.length then specJudge inp goToks status else some ("unparsable-go-tokens", "")
    if status == "panic" || status == "hang" || status == "err-other" then
      .violation "crash" "tokens or a token-limit error" tags
    else match specV with
    | some (cls, req) =>
      -- a documented column defect must still be reproduced exactly by the port
      if (cls == "column-after-multibyte-token-end" || cls == "column-after-empty-string-token") && go != m
      then .modelDiff m tags else .violation cls req tags
    | none => if go == m then .ok tags else .modelDiff m tags

def judge (op : List String) (go : String) : Verdict :=
  match op with
  | "lex" :: hexes =>
    if go == "panic" || go == "hang" then .violation "crash" "tokens or a token-limit error" [] else
    let groups := splitGroups go
    if groups.length ≠ hexes.length then .modelDiff "group-count" []
    else
      let vs := (hexes.zip groups).map (fun (h, g) => judgeOne h g)
      -- the first non-OK verdict decides; tags are merged
      let allTags := (vs.foldl (fun acc v => match v with | .ok t => acc ++ t | _ => acc) []).eraseDups
      let tags := if hexes.length > 1 then "multi-input" :: allTags else allTags
      let isV : Verdict → Bool := fun v => match v with | .violation .. => true | _ => false
      let isM : Verdict → Bool := fun v => match v with | .modelDiff .. => true | _ => false
      let isS : Verdict → Bool := fun v => match v with | .skip .. => true | _ => false
      match vs.find? isV with
      | some v => v
      | none =>
        match vs.find? isM with
        | some v => v
        | none =>
          match vs.find? isS with
          | some v => v
          | none => Verdict.ok tags
  | _ => .skip "foreign-op"

def main : IO Unit := runDriver judge
