import Verif.Util.Proto
/-!
Driver for stream `compiledet` (property C35, compilation determinism — correspondence only, there
is no model of the compiler): the harness compiles each generated program several times in one
process and once in a fresh process (multi-program scenarios `compiledet multi …`: the whole set of
programs, the last one recompiled 40 times against the same compiled dependencies) and reports `same:<hash>[:fresh]`, `differ:<where>`,
`rejected:<phase>` (the generated program did not parse / check) or `compile-panic`.
The spec is: every repetition yields the identical program.
-/
open Verif.Proto

def judgeResult (shape : String) (go : String) : Verdict :=
  if go.startsWith "same:" then
    .ok (["!nt", "same", shape] ++ (if go.endsWith ":fresh" then ["fresh-process"] else ["in-process-only"]))
  else if go.startsWith "differ:" then .violation "compile-nondeterministic" "identical-output-on-every-compilation" ["differ", shape]
  else if go.startsWith "rejected:" then .skip go
  else if go == "compile-panic" then .skip "compile-panic"
  else if go == "hang" then .skip "hang"
  else .skip "unknown-result"

def judge (op : List String) (go : String) : Verdict :=
  match op with
  | ["compiledet", _src] => judgeResult "single-program" go
  -- `compiledet multi <name> <src> ...`: programs in dependency order, the last one (whose types inherit
  -- conditions from interfaces of another program) recompiled against the same compiled dependencies
  | "compiledet" :: "multi" :: _ :: _ :: _ => judgeResult "multi-program" go
  | _ => .skip "unknown-op"

def main : IO Unit := runDriver judge
