import Verif.Util.Proto
/-!
Driver for stream `compiledet` (property C35, compilation determinism — correspondence only, there
is no model of the compiler): the harness compiles each generated program several times in one
process and once in a fresh process and reports `same:<hash>[:fresh]`, `differ:<where>`,
`rejected:<phase>` (the generated program did not parse / check) or `compile-panic`.
The spec is: every repetition yields the identical program.
-/
open Verif.Proto

def judge (op : List String) (go : String) : Verdict :=
  match op with
  | ["compiledet", _src] =>
    if go.startsWith "same:" then
      .ok (["!nt", "same"] ++ (if go.endsWith ":fresh" then ["fresh-process"] else ["in-process-only"]))
    else if go.startsWith "differ:" then .violation "compile-nondeterministic" "identical-output-on-every-compilation" ["differ"]
    else if go.startsWith "rejected:" then .skip go
    else if go == "compile-panic" then .skip "compile-panic"
    else if go == "hang" then .skip "hang"
    else .skip "unknown-result"
  | _ => .skip "unknown-op"

def main : IO Unit := runDriver judge
