import Verif.Util.Proto
import Verif.Model.Store
/-! Driver for stream `store` (C22): `store <engine> <history>  =>  <obs tx1>|<obs tx2>|…`.
The machine `Verif.Model.Store` is the spec: every difference is a VIOLATION, classified by the kind
of the first operation whose observation differs. -/
open Verif.Proto Verif.Model.Store

def parseBase : String → Option Base
  | "Int" => some .int | "String" => some .string | "Bool" => some .bool | "Integer" => some .integer
  | "ArrInt" => some .arrInt | "ArrAny" => some .arrAny | "S" => some .s | "S2" => some .s2 | "I" => some .i
  | "AnyStruct" => some .anyStruct | "R" => some .r | "R2" => some .r2 | "RI" => some .ri
  | "AnyResource" => some .anyResource | _ => none

/-- a base token followed by `?`s -/
def parseTy (s : String) : Option Ty :=
  let cs := s.toList
  let base := cs.reverse.dropWhile (· == '?') |>.reverse
  (parseBase (String.ofList base)).map fun b => ⟨b, cs.length - base.length⟩

def parseInts (s : String) : Option (List Int) :=
  if s.isEmpty then some [] else (s.splitOn ".").mapM String.toInt?

def parseValL : List Char → Option Val
  | [] => none
  | ['N'] => some .nil
  | 'O' :: rest => (parseValL rest).map .some
  | c :: rest =>
    let body := String.ofList rest
    match c with
    | 'I' => body.toInt?.map .int
    | 'S' => some (.str body)
    | 'B' => some (.bool (body == "1"))
    | 'A' => (parseInts body).map .arr
    | 'Y' => (parseInts body).map .arrAny
    | 's' => body.toInt?.map .s
    | 't' => body.toInt?.map .s2
    | 'r' => body.toInt?.map .r
    | 'q' => body.toInt?.map .r2
    | _ => none

def parseVal (s : String) : Option Val := parseValL s.toList

def parseOp (s : String) : Option Op :=
  match s.splitOn "," with
  | ["sv", a, p, v, _t] => do some (.save (← a.toNat?) (← p.toNat?) (← parseVal v))
  | ["ld", a, p, t] => do some (.load (← a.toNat?) (← p.toNat?) (← parseTy t))
  | ["cp", a, p, t] => do some (.copy (← a.toNat?) (← p.toNat?) (← parseTy t))
  | ["bw", a, p, t] => do some (.borrow (← a.toNat?) (← p.toNat?) (← parseTy t))
  | ["ck", a, p, t] => do some (.check (← a.toNat?) (← p.toNat?) (← parseTy t))
  | ["ty", a, p] => do some (.type (← a.toNat?) (← p.toNat?))
  | ["ps", a] => do some (.paths (← a.toNat?))
  | ["fe", a] => do some (.forEach (← a.toNat?))
  | ["pn"] => some .panic
  | _ => none

def parseHist (s : String) : Option (List (List Op)) :=
  (s.splitOn "|").mapM fun tx => (tx.splitOn ";").mapM parseOp

def baseId : Base → String
  | .int => "Int" | .string => "String" | .bool => "Bool" | .integer => "Integer" | .arrInt => "[Int]"
  | .arrAny => "[AnyStruct]" | .s => "C.S" | .s2 => "C.S2" | .i => "{C.I}" | .anyStruct => "AnyStruct"
  | .r => "C.R" | .r2 => "C.R2" | .ri => "{C.RI}" | .anyResource => "AnyResource" | .never => "Never"

/-- the type identifier (`Type.identifier`, location prefix stripped): `T?` is `(T)?` -/
def tyId (t : Ty) : String :=
  (List.range t.opt).foldl (fun s _ => "(" ++ s ++ ")?") (baseId t.base)

def q (s : String) : String := "\"" ++ s ++ "\""
def showInts (xs : List Int) : String := "[" ++ ", ".intercalate (xs.map toString) ++ "]"

/-- the way `log` prints a value (location prefix stripped by the harness); an optional prints as its content -/
def showVal : Val → String
  | .int n => toString n | .str s => q s | .bool b => toString b
  | .arr xs => showInts xs | .arrAny xs => showInts xs
  | .s x => s!"C.S(x: {x})" | .s2 x => s!"C.S2(x: {x})" | .r x => s!"C.R(x: {x})" | .r2 x => s!"C.R2(x: {x})"
  | .some v => showVal v | .nil => "nil"

/-- what the generated transaction reads through a borrowed `&t` (see `storeBorrowRead` in the harness;
    `t` is never optional there: the checker rejects references to optionals) -/
def showRef (t : Ty) (v : Val) : String :=
  match t.base, v with
  | .int, .int n | .integer, .int n => q (toString n)
  | .string, .str s => q (s ++ "!")
  | .bool, .bool b => toString b
  | .arrInt, .arr xs | .arrAny, .arr xs | .arrAny, .arrAny xs => toString xs.length
  | .s, .s x | .s2, .s2 x | .i, .s2 x | .r, .r x | .r2, .r2 x | .ri, .r2 x => toString x
  | .anyStruct, v | .anyResource, v => q (tyId v.ty)
  | _, _ => "?"

def insertStr (x : String) : List String → List String
  | [] => [x]
  | y :: ys => if x ≤ y then x :: y :: ys else y :: insertStr x ys
/-- the harness sorts the rendered elements as strings -/
def sortStrs (xs : List String) : List String := xs.foldr insertStr []

def showObs (op : Op) : Obs → String
  | .saved => q "sv"
  | .none =>
    match op with
    | .load _ _ t => if t.isRes then q "nil" else "nil"
    | .borrow .. => q "none"
    | _ => "nil"
  | .val v =>
    match op with
    | .load _ _ t => if t.isRes then q (showVal v) else showVal v
    | _ => showVal v
  | .ref v =>
    match op with
    | .borrow _ _ t => showRef t v
    | _ => "?"
  | .bool b => toString b
  | .ty none => "nil"
  | .ty (some t) => q (tyId t)
  | .paths ps => "[" ++ " ".intercalate (sortStrs (ps.map fun p => s!"/storage/p{p}")) ++ "]"
  | .entries es => "[" ++ " ".intercalate (sortStrs (es.map fun e => s!"/storage/p{e.1}={tyId e.2}")) ++ "]"

def showAbort : Abort → String
  | .overwrite => "overwrite" | .mismatch => "mismatch" | .panic => "panic"

def zipShow : List Op → List Obs → List String
  | op :: ops, o :: os => showObs op o :: zipShow ops os
  | _, _ => []

def showTx (tx : List Op) (o : TxObs) : String :=
  (match o.outcome with | none => "ok" | some e => "err:" ++ showAbort e)
    ++ "[" ++ ";".intercalate (zipShow tx o.logs) ++ "]"

def opKind : Op → String
  | .save .. => "save" | .load .. => "load" | .copy .. => "copy" | .borrow .. => "borrow"
  | .check .. => "check" | .type .. => "type" | .paths .. => "paths" | .forEach .. => "forEach" | .panic => "panic"

def obsTag (op : Op) (o : Obs) : String :=
  opKind op ++ (match o with
    | .none => "-nil" | .bool true => "-true" | .bool false => "-false" | .ty none => "-nil"
    | .paths [] | .entries [] => "-empty" | _ => "-ok")

def txTags (tx : List Op) (o : TxObs) : List String :=
  let ts := (tx.zip o.logs).map fun (op, ob) => obsTag op ob
  match o.outcome with
  | none => "commit" :: ts
  | some e => ("abort-" ++ showAbort e) :: (match tx.drop o.logs.length with
      | op :: _ => [opKind op ++ "-" ++ showAbort e] | [] => []) ++ ts

def dedup (xs : List String) : List String := xs.foldl (fun acc x => if acc.contains x then acc else acc ++ [x]) []

/-- split "head[l1;l2]" into head and logs -/
def splitTxObs (s : String) : String × List String :=
  match s.splitOn "[" with
  | head :: rest =>
    let body := "[".intercalate rest
    let body := if body.endsWith "]" then (body.dropEnd 1).toString else body
    (head, if body.isEmpty then [] else body.splitOn ";")
  | [] => (s, [])

/-- The shape of known finding `borrow-stored-nil-as-anyresource`: Go aborts with a type mismatch at a
    `borrow<&AnyResource>` through which the machine sees a stored `nil` (dynamic type `Never?`, `Never??`, …),
    everything before that operation being equal.  (`check<@AnyResource>` / `load<@AnyResource>` accept the
    same stored value: they go through `IsSubTypeOfSemaType`, borrow through `sema.IsSubType`.) -/
def isNilAnyResBorrow (tx : List Op) (mh gh : String) (ml gl : List String) : Bool :=
  match tx.drop gl.length, ml.drop gl.length with
  | .borrow _ _ ⟨.anyResource, 0⟩ :: _, m :: _ =>
    gh == "err:mismatch" && mh != gh && ml.take gl.length == gl && m.startsWith "\"(" && (m.splitOn "Never").length == 2
      && m.endsWith ")?\""
  | _, _ => false

/-- the kind of the first operation at which Go and the machine differ -/
def firstDiff (hist : List (List Op)) (model go : List String) : String :=
  let rec goTx : List (List Op) → List String → List String → Nat → String
    | tx :: txs, m :: ms, g :: gs, i =>
      if m == g then goTx txs ms gs (i + 1) else
        let (mh, ml) := splitTxObs m
        let (gh, gl) := splitTxObs g
        let rec goOp : List Op → List String → List String → String
          | op :: ops, a :: as, b :: bs => if a == b then goOp ops as bs else opKind op ++ "-wrong-result"
          | op :: _, _, _ => opKind op ++ "-wrong-outcome"
          | [], _, _ => "tx-wrong-outcome"
        let c := goOp tx ml gl
        if isNilAnyResBorrow tx mh gh ml gl then s!"borrow-stored-nil-as-anyresource tx{i}"
        else if gh.startsWith "err:internal" || gh.startsWith "err:crash" then s!"go-panic-or-internal tx{i} {c}"
        else if mh != gh && ml == gl then
          (match tx.drop ml.length with | op :: _ => opKind op | [] => "tx") ++ s!"-wrong-outcome tx{i}"
        else s!"{c} tx{i}"
    | _, _, _, _ => "tx-count"
  goTx hist model go 0

def judge (op : List String) (go : String) : Verdict :=
  match op with
  | ["store", _engine, h] =>
    match parseHist h with
    | none => .skip "bad-op"
    | some hist =>
      let (final, obs) := runHist [] hist
      let widest := [0, 1, 2].foldl (fun m a => max m (paths final a).length) 0
      let rendered := (hist.zip obs).map fun (tx, o) => showTx tx o
      let model := "|".intercalate rendered
      let tags := dedup ((if widest ≥ 16 then ["occupied>=16"] else if widest ≥ 4 then ["occupied>=4"] else ["occupied<4"])
        ++ (hist.zip obs).flatMap fun (tx, o) => txTags tx o)
      if go == model then .ok ("!nt" :: tags)
      else
        let d := firstDiff hist rendered (go.splitOn "|")
        match d.splitOn " " with
        | cls :: rest => .violation cls ("machine: " ++ model ++ " (" ++ " ".intercalate rest ++ ")") tags
        | [] => .violation "wrong-observation" model tags
  | _ => .skip "unknown-op"

def main : IO Unit := runDriver judge
