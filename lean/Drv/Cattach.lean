import Verif.Util.Proto
import Verif.Model.Front.Attach
import Verif.Model.Front.ExprSyntax
/-!
Driver for stream `attach` (C39): `attach prog <source>`; see `harness/cmd/vharness/stream_attach.go`.

Spec oracle (independent of the model): in Go's `CommentMap` every comment group occurs in exactly one slot.
Model comparison: the slot assignments of `Verif.Model.Front.Attach.attach` on the same element forest and
groups equal Go's.
-/
open Verif.Proto Verif.Model.Front.Attach Verif.Model.Front.Syn

def sepStr : String := " \x1f "

def natOf (s : String) : Option Nat := s.toNat?

partial def readN : SX → Option N
  | .list (.atom "n" :: .atom a :: .atom b :: .atom c :: .atom d :: .atom e :: .atom f :: kids) => do
    let ks ← kids.mapM readN
    some (N.mk (← natOf a) (← natOf b) (← natOf c) (← natOf d) (← natOf e) (← natOf f) ks)
  | _ => none

def readForest (s : String) : Option (List N) :=
  match SX.parse s with
  | some (.list (.atom "f" :: ns)) => ns.mapM readN
  | _ => none

def readG : SX → Option G
  | .list [.atom "g", .atom i, .atom a, .atom b, .atom c, .atom d] => do
    some ⟨← natOf i, ← natOf a, ← natOf b, ← natOf c, ← natOf d⟩
  | _ => none

def readGroups (s : String) : Option (List G) :=
  match SX.parse s with
  | some (.list (.atom "gs" :: gs)) => gs.mapM readG
  | _ => none

def slotLetter : Slot → String
  | .header => "H" | .leading => "L" | .sameLine => "S" | .trailing => "T" | .footer => "F"

def showAsg (a : Asg) : String := s!"{a.g.id}:{slotLetter a.slot}:{a.node}"

/-- the group indices of Go's assignment list `idx:K:node …` -/
def goIdxs (s : String) : List Nat :=
  if s == "-" then [] else (s.splitOn " ").filterMap fun w => ((w.splitOn ":").headD "").toNat?

def judge (op : List String) (go : String) : Verdict :=
  match op with
  | ["cattach", "prog", _] =>
    if go == "reject" then .skip "reject"
    else if go == "panic" || go == "hang" then .violation "go-panic-or-hang" "ok" [go]
    else if !go.startsWith "ok:" then .skip "bad-result"
    else
      match ((go.drop 3).toString).splitOn sepStr with
      | [fs, gs, asg] =>
        match readForest fs, readGroups gs with
        | some forest, some groups =>
          -- spec: every group exactly once
          let idxs := goIdxs asg
          let once := idxs == (List.range groups.length)
          if !once then .violation "comment-group-not-attached-once" "every group in exactly one slot" [asg]
          else
            let mine := (attach 200 forest groups).map showAsg
            let mineS := if mine.isEmpty then "-" else " ".intercalate mine
            let tags := (if groups.isEmpty then [] else ["!nt"]) ++
              ((attach 200 forest groups).map (fun a => slotLetter a.slot)).eraseDups
            if mineS != asg then .modelDiff mineS tags else .ok tags
        | _, _ => .skip "bad-sexpr"
      | _ => .skip "bad-result"
  | _ => .skip "unknown-op"

def main : IO Unit := runDriver judge
