import Verif.Util.Proto
import Verif.Model.Range
/-! Driver for stream `range` (C21).
  `range iter <T> <start> <end> <step|-> <engine>`         => `ok:<n>:<elements>` | `cerr` | `err:<kind>`
  `range contains <T> <start> <end> <step|-> <x> <engine>` => `ok:true|false` | `cerr` | `err:<kind>` -/
open Verif.Proto Verif.Model.Range

def parseTy (s : String) : Option Ty :=
  if s == "Int" then some ⟨.signed, none⟩ else if s == "UInt" then some ⟨.unsigned, none⟩ else
  let go (pre : String) (k : Kind) : Option Ty :=
    if s.startsWith pre then ((s.drop pre.length).toString.toNat?).map fun b => ⟨k, some b⟩ else none
  (go "Int" .signed).orElse fun _ => (go "UInt" .unsigned).orElse fun _ => go "Word" .word

def construct (t : Ty) (s e : Int) (step : Option Int) : Except Err Range :=
  match step with
  | none => newRange t s e
  | some st => newRangeWithStep t s e st

def errStr : Err → String
  | .overflow => "err:overflow" | .underflow => "err:underflow" | .construction => "cerr"

def showList (xs : List Int) : String := s!"ok:{xs.length}:" ++ ",".intercalate (xs.map toString)

/-! independent spec: the arithmetic sequence -/

/-- does construction succeed, and with which step (spec: non-zero step pointing from start to end;
    the default step is ±1, negative only for signed types) -/
def specStep (t : Ty) (s e : Int) (step : Option Int) : Option Int :=
  match step with
  | none => if s ≤ e then some 1 else if t.kind == .signed then some (-1) else none
  | some st => if st == 0 then none else if (s < e && st < 0) || (s > e && st > 0) then none else some st

/-- start, start+step, … not beyond end -/
def specSeq (s e st : Int) : List Int :=
  let n := (e - s).natAbs / st.natAbs
  (List.range (n + 1)).map fun (k : Nat) => s + (k : Int) * st

def specContains (s e st x : Int) : Bool :=
  if st > 0 then s ≤ x && x ≤ e && (x - s).natAbs % st.natAbs == 0
  else e ≤ x && x ≤ s && (s - x).natAbs % st.natAbs == 0

def judge (op : List String) (go : String) : Verdict :=
  let decode (tyS sS eS stS : String) : Option (Ty × Int × Int × Option Int) :=
    match parseTy tyS, sS.toInt?, eS.toInt?, (if stS == "-" then some none else stS.toInt?.map some) with
    | some t, some s, some e, some st => some (t, s, e, st)
    | _, _, _, _ => none
  match op with
  | ["range", "iter", tyS, sS, eS, stS, _eng] =>
    match decode tyS sS eS stS with
    | none => .skip "bad-op"
    | some (t, s, e, st) =>
      if !(t.inRange s && t.inRange e && t.inRange (st.getD 1)) then .skip "operand-not-in-type" else
      let m := match construct t s e st with
        | .error er => errStr er
        | .ok r => match iterate t r with | .ok xs => showList xs | .error er => errStr er
      let spec := match specStep t s e st with | none => "cerr" | some step => showList (specSeq s e step)
      let tags := ["!nt", "iter", tyS, if st.isNone then "default-step" else "step",
        if spec == "cerr" then "construction-error" else if s ≤ e then "ascending" else "descending"]
        ++ (if t.maxV == some e || t.minV == some e then ["end-at-type-bound"] else [])
        ++ (match specStep t s e st with | some step => if (e - s).natAbs % step.natAbs != 0 then ["end-not-reached"] else [] | none => [])
      if go != spec then
        .violation (if go == "err:overflow" || go == "err:underflow" then "iteration-overflow"
                    else if go == "err:limit" then "iteration-does-not-terminate"
                    else if go.startsWith "err" || go == "panic" || go == "hang" then "go-panic-or-internal"
                    else "wrong-sequence") spec tags
      else if go == m then .ok tags else .modelDiff m tags
  | ["range", "contains", tyS, sS, eS, stS, xS, _eng] =>
    match decode tyS sS eS stS, xS.toInt? with
    | some (t, s, e, st), some x =>
      if !(t.inRange s && t.inRange e && t.inRange (st.getD 1) && t.inRange x) then .skip "operand-not-in-type" else
      let m := match construct t s e st with
        | .error er => errStr er
        | .ok r => s!"ok:{contains r x}"
      let spec := match specStep t s e st with | none => "cerr" | some step => s!"ok:{specContains s e step x}"
      let tags := ["!nt", "contains", tyS, if st.isNone then "default-step" else "step",
        if spec == "cerr" then "construction-error" else if spec == "ok:true" then "member" else "non-member"]
        ++ (if x == e then ["needle-is-end"] else []) ++ (if x == s then ["needle-is-start"] else [])
      if go != spec then
        .violation (if go == "err:overflow" || go == "err:underflow" then "contains-overflow"
                    else if go.startsWith "err" || go == "panic" || go == "hang" then "go-panic-or-internal"
                    else "wrong-membership") spec tags
      else if go == m then .ok tags else .modelDiff m tags
    | _, _ => .skip "bad-op"
  | _ => .skip "unknown-op"

def main : IO Unit := runDriver judge
