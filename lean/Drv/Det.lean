import Verif.Util.Proto
import Verif.Model.Exec
/-! Driver for stream `det` (C33): obs = `same|diff:<step>:<component>:<detail> ;; runs=<n> ;; traces of the first run`.
A difference between the repeated executions is a violation (class by the component that differed:
the complete error message text of a failing execution is `error-text`); independently, every commit
block of every trace must be in the canonical (sorted) order that the collect-then-sort model emits.
An engine field `<engine>:<reps>` marks the contract-update family (history repeated `reps` times). -/
open Verif.Proto Verif.Model.Exec

def hexNat (s : String) : Option Nat :=
  s.toList.foldlM (fun acc c => (hexDigit c).map (fun d => acc * 16 + d)) 0

/-- only the writes matter here -/
def parseW (t : String) : Ev :=
  if t.startsWith "w:" then
    match ((t.drop 2).toString).splitOn "/" with
    | [o, rest] =>
      let key := (rest.splitOn ":").headD ""
      let ow := (hexNat o).getD 0
      if key.startsWith "$" then .write ow true (((key.drop 1).toNat?).getD 0) else .write ow false 0
    | _ => .host
  else .host

def judge (op : List String) (go : String) : Verdict :=
  match op with
  | "det" :: engineField :: _ =>
    let engine := (engineField.splitOn ":").headD ""
    let family := if (engineField.splitOn ":").length > 1 then "update-family" else "random-history"
    match go.splitOn " ;; " with
    | [verdict, _runs, traces] =>
      let trs := (traces.splitOn " | ").map (fun t => ((t.splitOn " ").filter (· ≠ "")).map parseW)
      let nWrites : Nat := (trs.map (fun tr => (tr.filter Ev.isWrite).length)).foldl (· + ·) 0
      let multiAcct := trs.any (fun tr => (tr.filter (fun e => match e with | .write _ false _ => true | _ => false)).length ≥ 2)
      let tags := [engine, family, if nWrites == 0 then "no-writes" else "writes", if multiAcct then "multi-account-commit" else "single"]
      if verdict != "same" then
        let component := ((verdict.splitOn ":").drop 2).headD ""
        if component == "error-text" then
          .violation "nondeterministic-error-message" "identical error message (all reported errors, in the same order) in every run" tags
        else .violation "nondeterministic-outcome" "identical observations in every run" tags
      else if !(trs.all writesCanonical) then
        .violation "commit-order-not-canonical" "register writes in sorted order (account registers by address, then slabs by id)" tags
      else .ok (if nWrites > 0 then "!nt" :: tags else tags)
    | _ => if go == "panic" || go == "hang" then .violation "go-panic-or-hang" "no crash" [] else .skip "bad-observation"
  | _ => .skip "unknown-op"

def main : IO Unit := runDriver judge
