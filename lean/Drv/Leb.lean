import Verif.Util.Proto
import Verif.Model.Codec.Leb128
import Verif.Spec.Leb128
/-!
Driver for stream `leb` (property C35, LEB128):
* `leb rt <kind> <v> <prefixHex> <trailHex>`  — Go: `Append*(prefix, v)`, then `Read*(enc ++ trail)`;
  result `<encHex>:<value>:<count>` | `<encHex>:err` | `prefix-clobbered`
* `leb read <kind> <hex>`                     — Go: `Read*(bytes)`; result `<value>:<count>` | `err`
* `leb fix <v> <length> <trailHex>`           — Go: `AppendUint32FixedLength(nil, v, length)`, then
  `ReadUint32(enc ++ trail)`; result `err` | `<encHex>:<value>:<count>` | `<encHex>:err`
`kind` ∈ u32 u64 i32 i64.
-/
open Verif.Proto Verif.Model.Leb128
namespace Drv.Leb

def kindInfo : String → Option (Nat × Bool)
  | "u32" => some (32, false) | "u64" => some (64, false)
  | "i32" => some (32, true) | "i64" => some (64, true)
  | _ => none

def inRange (w : Nat) (signed : Bool) (v : Int) : Bool :=
  if signed then decide (-(2 ^ (w - 1) : Int) ≤ v ∧ v < 2 ^ (w - 1)) else decide (0 ≤ v ∧ v < 2 ^ w)

def modelAppend (w : Nat) (signed : Bool) (pre : Bytes) (v : Int) : Bytes :=
  match w, signed with
  | 32, false => appendUint32 pre v.toNat
  | _, false => appendUint64 pre v.toNat
  | 32, true => appendInt32 pre v
  | _, true => appendInt64 pre v

def modelRead (w : Nat) (signed : Bool) (bs : Bytes) : Except Err (Int × Nat) :=
  match w, signed with
  | 32, false => (readUint32 bs).map fun (v, n) => ((v : Int), n)
  | _, false => (readUint64 bs).map fun (v, n) => ((v : Int), n)
  | 32, true => readInt32 bs
  | _, true => readInt64 bs

def specEnc (signed : Bool) (v : Int) : Bytes :=
  if signed then Verif.Spec.Leb128.sleb v else Verif.Spec.Leb128.uleb v.toNat

def specCanonicalHead (w : Nat) (signed : Bool) (bs : Bytes) : Option (Int × Nat) :=
  if signed then Verif.Spec.Leb128.canonicalHeadS w bs
  else (Verif.Spec.Leb128.canonicalHeadU w bs).map fun (v, n) => ((v : Int), n)

def renderRead : Except Err (Int × Nat) → String
  | .ok (v, n) => toString v ++ ":" ++ toString n
  | .error _ => "err"

def lenTag (n : Nat) : String := "len" ++ toString n

def judge (op : List String) (go : String) : Verdict :=
  match op with
  | ["leb", "rt", kind, vs, preHex, trailHex] =>
    match kindInfo kind, vs.toInt?, parseHex preHex, parseHex trailHex with
    | some (w, signed), some v, some pre, some trail =>
      if !inRange w signed v then .skip "out-of-range" else
      let full := modelAppend w signed pre v
      let enc := full.drop pre.length
      let m := if full.take pre.length != pre then "prefix-clobbered"
               else toHex enc ++ ":" ++ renderRead (modelRead w signed (enc ++ trail))
      let senc := specEnc signed v
      let spec := toHex senc ++ ":" ++ toString v ++ ":" ++ toString senc.length
      let tags := [kind, lenTag enc.length] ++ (if v < 0 then ["neg"] else []) ++
                  (if trail.isEmpty then [] else ["trail"]) ++ (if pre.isEmpty then [] else ["prefix"])
      let tags := if enc.length ≥ 2 || v < 0 then "!nt" :: tags else tags
      -- the property itself is the oracle: the value and the reported length must come back
      match go.splitOn ":" with
      | [gHex, gv, gc] =>
        match parseHex gHex with
        | some gEnc =>
          if gv != toString v || gc != toString gEnc.length then .violation "leb-roundtrip" spec tags
          else if gEnc != senc then .violation "leb-noncanonical-encoding" spec tags
          else if go == m then .ok tags else .modelDiff m tags
        | none => .violation "leb-roundtrip" spec tags
      | _ => .violation "leb-roundtrip" spec tags
    | _, _, _, _ => .skip "bad-op"
  | ["leb", "read", kind, hex] =>
    match kindInfo kind, parseHex hex with
    | some (w, signed), some bs =>
      let r := modelRead w signed bs
      let m := renderRead r
      let canon := specCanonicalHead w signed bs
      let tags := [kind ++ "-read"] ++
        (match r with | .ok (_, n) => [lenTag n] | .error _ => ["e-short"]) ++
        (match canon with | some _ => ["canonical"] | none => ["noncanonical"])
      let tags := if bs.length ≥ 2 then "!nt" :: tags else tags
      match canon with
      | some (v, n) =>
        let spec := toString v ++ ":" ++ toString n
        if go != spec then .violation "leb-read-canonical" spec tags
        else if go == m then .ok tags else .modelDiff m tags
      | none => if go == m then .ok tags else .modelDiff m tags
    | _, _ => .skip "bad-op"
  | ["leb", "fix", vs, ls, trailHex] =>
    match vs.toNat?, ls.toInt?, parseHex trailHex with
    | some v, some len, some trail =>
      if v ≥ 2 ^ 32 then .skip "out-of-range" else
      let r := appendUint32FixedLength [] v len
      let m := match r with
        | .error _ => "err"
        | .ok enc => toHex enc ++ ":" ++ renderRead ((readUint32 (enc ++ trail)).map fun (x, n) => ((x : Int), n))
      let fits := decide (v < 128 ^ len.toNat)   -- a non-positive length leaves room for 0 only
      let tags := ["fix", if fits then "fits" else "too-small", lenTag len.toNat]
      let tags := if len ≥ 1 then "!nt" :: tags else tags
      -- spec: error iff v needs more than `len` digits; otherwise exactly `len` bytes that read back as v
      let senc := Verif.Spec.Leb128.ulebFixed v len.toNat
      let spec := if !fits then "err" else
        if 1 ≤ len && len ≤ 5 then toHex senc ++ ":" ++ toString v ++ ":" ++ toString len else "?"
      if spec != "?" && go != spec then .violation "leb-fixed-length" spec tags
      else if go == m then .ok tags else .modelDiff m tags
    | _, _, _ => .skip "bad-op"
  | _ => .skip "unknown-op"

end Drv.Leb

def main : IO Unit := Verif.Proto.runDriver Drv.Leb.judge
