import Verif.Util.Proto
import Verif.Model.DS.Ops
import Verif.Model.DS.OrderedMap
import Verif.Model.DS.BiMap
import Verif.Spec.DS
import Verif.Model.DS.IntervalST
import Verif.Model.DS.PersistentSet
/-! Driver for stream `ds` (C51): one line = one operation sequence on one structure.
    `ds <kind> <init> op|op|…  =>  obs;obs;…`  The driver runs the code-shaped model *and* the spec. -/
open Verif.Proto Verif.DS Verif.Model.DS

namespace DsDrv

def b01 (b : Bool) : String := if b then "1" else "0"
def showInts (l : List Int) : String := "[" ++ ",".intercalate (l.map toString) ++ "]"
def showKV (p : Int × Int) : String := toString p.1 ++ "=" ++ toString p.2
def showOptVal : Option Int → String
  | none => "0:0"
  | some v => toString v ++ ":1"

/-- parse the op field: `a:b:c|d:e` -/
def splitOps (s : String) : List (List String) :=
  if s == "-" || s == "" then [] else (s.splitOn "|").map (fun o => o.splitOn ":")

def splitObs (s : String) : List String := if s == "-" then [] else s.splitOn ";"

def parsePred (p : String) : Option (Int → Bool) :=
  if p == "t" then some (fun _ => true)
  else if p == "f" then some (fun _ => false)
  else if p == "ev" then some (fun k => k % 2 == 0)
  else if p.startsWith "lt" then (p.drop 2).toInt?.map (fun n => fun k => decide (k < n))
  else if p.startsWith "ge" then (p.drop 2).toInt?.map (fun n => fun k => decide (k ≥ n))
  else if p.startsWith "eq" then (p.drop 2).toInt?.map (fun n => fun k => k == n)
  else none

/-- coarse shape of an observation, for the branch histogram -/
def obsShape (o : String) : String :=
  if o == "ok" || o == "nil" || o == "nopair" || o == "panic" || o == "0" || o == "1" then o
  else if o.endsWith ":0" then "absent" else if o.endsWith ":1" then "present"
  else if o == "[]" || o == "[]ok" || o == "." then "empty"
  else if o.startsWith "0[" then "false" else if o.startsWith "1[" then "true"
  else if o.endsWith "!" then "stopped"
  else "some"

def tagsOf (kind : String) (ops : List (List String)) (obs : List String) : List String :=
  let raw := (ops.zip obs).map (fun (o, r) => kind ++ "." ++ o.headD "?" ++ "." ++ obsShape r)
  raw.eraseDups

/-- first index where the two observation lists differ (`*` in `want` matches anything) -/
def firstDiff (want got : List String) : Option (Nat × String × String) :=
  let rec go (i : Nat) : List String → List String → Option (Nat × String × String)
    | [], [] => none
    | w :: ws, g :: gs => if w == g || w == "*" then go (i + 1) ws gs else some (i, w, g)
    | w :: _, [] => some (i, w, "<missing>")
    | [], g :: _ => some (i, "<none>", g)
  go 0 want got

def describe (ops : List (List String)) (d : Nat × String × String) : String :=
  "op#" ++ toString d.1 ++ " " ++ ":".intercalate (ops.getD d.1 []) ++ " expected " ++ d.2.1 ++ " got " ++ d.2.2

/-- common verdict: Go vs spec (VIOLATION), then Go vs model (MODELDIFF) -/
def verdict (kind : String) (ops : List (List String)) (go : String) (model spec : List String)
    (extraTags : List String) : Verdict :=
  let goObs := splitObs go
  let tags := extraTags ++ tagsOf kind ops goObs
  let tags := if ops.length > 1 then "!nt" :: tags else tags
  match firstDiff spec goObs with
  | some d =>
    let opn := (ops.getD d.1 []).headD "?"
    let cls := if d.2.2 == "panic" then kind ++ "-go-panic" else kind ++ "-" ++ opn ++ "-wrong"
    .violation cls (describe ops d) tags
  | none =>
    match firstDiff model goObs with
    | some d => .modelDiff (describe ops d) tags
    | none => .ok tags

/-! ### ordered map -/

def parseOmOp (a : List String) : Option (OMOp Int Int) :=
  let reg (s : String) : Option Nat := s.toNat?.map (· % 3)
  match a with
  | ["set", r, k, v] => do some (.set (← reg r) (← k.toInt?) (← v.toInt?))
  | ["get", r, k] => do some (.get (← reg r) (← k.toInt?))
  | ["has", r, k] => do some (.has (← reg r) (← k.toInt?))
  | ["pair", r, k] => do some (.pair (← reg r) (← k.toInt?))
  | ["del", r, k] => do some (.del (← reg r) (← k.toInt?))
  | ["len", r] => do some (.len (← reg r))
  | ["old", r] => do some (.oldest (← reg r))
  | ["new", r] => do some (.newest (← reg r))
  | ["nxt", r, k] => do some (.next (← reg r) (← k.toInt?))
  | ["prv", r, k] => do some (.prev (← reg r) (← k.toInt?))
  | ["each", r] => do some (.each (← reg r))
  | ["eachi", r] => do some (.eachIdx (← reg r))
  | ["eache", r, k] => do let k ← k.toInt?; some (.eachErr (← reg r) (fun x => x == k))
  | ["all", r, p] => do some (.all (← reg r) (← parsePred p))
  | ["any", r, p] => do some (.any (← reg r) (← parsePred p))
  | ["disj", r, s] => do some (.disj (← reg r) (← reg s))
  | ["inter", r, s, t] => do some (.inter (← reg r) (← reg s) (← reg t))
  | ["union", r, s, t] => do some (.union (← reg r) (← reg s) (← reg t))
  | ["setall", r, s] => do if s == "nil" then some (.setAll (← reg r) none) else some (.setAll (← reg r) (some (← reg s)))
  | ["clear", r] => do some (.clear (← reg r))
  | _ => none

def showOmObs : OMObs Int Int → String
  | .done => "ok"
  | .val o => showOptVal o
  | .bool b => b01 b
  | .nat n => toString n
  | .pair none => "nil"
  | .pair (some p) => showKV p
  | .noPair => "nopair"
  | .pairs l => "[" ++ ",".intercalate (l.map showKV) ++ "]"
  | .idxPairs l => "[" ++ ",".intercalate (l.map (fun (i, k, v) => toString i ++ ":" ++ showKV (k, v))) ++ "]"
  | .pairsErr l stopped => "[" ++ ",".intercalate (l.map showKV) ++ "]" ++ (if stopped then "!" else "ok")
  | .boolKeys b vis => b01 b ++ showInts vis

def judgeOm (init : String) (opsS go : String) : Verdict :=
  let ops := splitOps opsS
  match ops.mapM parseOmOp with
  | none => .skip "bad-op"
  | some pops =>
    let zeroValue : Nat → Bool := fun r => (init.toList.getD r 'n') == 'z'
    let M := OrderedMap.impl Int Int
    let S := Verif.Spec.DS.OM.impl Int Int
    let model := (M.run (M.init zeroValue) pops).map showOmObs
    let spec := (S.run (S.init zeroValue) pops).map showOmObs
    verdict "om" ops go model spec ["om.init." ++ init]

/-! ### bimap -/

def parseBmOps (a : List String) : Option (List (BMOp Int Int)) :=
  match a with
  | ["ins", k, v] => do some [.insert (← k.toInt?) (← v.toInt?)]
  | ["ex", k] => do some [.exists_ (← k.toInt?)]
  | ["exi", v] => do some [.existsInverse (← v.toInt?)]
  | ["get", k] => do some [.get (← k.toInt?)]
  | ["geti", v] => do some [.getInverse (← v.toInt?)]
  | ["del", k] => do some [.delete (← k.toInt?)]
  | ["deli", v] => do some [.deleteInverse (← v.toInt?)]
  | ["size"] => some [.size]
  | ["probe", n] => do
    let n ← n.toNat?
    some ((List.range n).flatMap (fun (i : Nat) => [BMOp.get (Int.ofNat i), BMOp.getInverse (Int.ofNat i)]))
  | _ => none

def showBmObs : BMObs Int Int → String
  | .done => "ok"
  | .goPanic => "panic"
  | .bool b => b01 b
  | .val o => showOptVal o
  | .key o => showOptVal o
  | .nat n => toString n

/-- group the observations of a `probe:n` (2n primitive observations) back into one string -/
def regroupBm (ops : List (List String)) (obs : List String) : List String :=
  let rec go : List (List String) → List String → List String
    | [], _ => []
    | ["probe", n] :: rest, obs =>
      let k := 2 * n.toNat!
      let mine := obs.take k
      let rec pairUp : List String → List String
        | a :: b :: t => (a ++ "/" ++ b) :: pairUp t
        | _ => []
      ("[" ++ ",".intercalate (pairUp mine) ++ "]") :: go rest (obs.drop k)
    | _ :: rest, o :: obs => o :: go rest obs
    | _ :: _, [] => []
  go ops obs

/-- put the wildcard `*` at the positions of `ins` operations -/
def weaveIns : List (List String) → List String → List String
  | [], _ => []
  | ("ins" :: _) :: rest, l => "*" :: weaveIns rest l
  | _ :: rest, o :: l => o :: weaveIns rest l
  | _ :: _, [] => []

def judgeBm (init : String) (opsS go : String) : Verdict :=
  let ops := splitOps opsS
  match ops.mapM parseBmOps with
  | none => .skip "bad-op"
  | some popss =>
    let pops := popss.flatten
    let m0 : BiMap.BM Int Int := if init == "z" then .zero else BiMap.new
    let model := regroupBm ops ((BiMap.run m0 pops).map showBmObs)
    -- the spec speaks about maps made by NewBiMap; on the zero value an Insert is outside the spec
    -- (Go panics like any write to a nil map): its observation is not judged, the state stays empty
    let spec :=
      if init == "z" then
        let opsNoIns := ops.filter (fun o => o.headD "" != "ins")
        let popsNoIns := pops.filter (fun o => match o with | .insert _ _ => false | _ => true)
        weaveIns ops (regroupBm opsNoIns ((Verif.Spec.DS.BM.run ([] : List (Int × Int)) popsNoIns).map showBmObs))
      else regroupBm ops ((Verif.Spec.DS.BM.run ([] : List (Int × Int)) pops).map showBmObs)
    verdict "bm" ops go model spec ["bm.init." ++ init]

/-! ### persistent set -/

def parsePsOp (a : List String) : Option (PSOp Int) :=
  let reg (s : String) : Option Nat := s.toNat?.map (· % 4)
  let regOrNil (s : String) : Option (Option Nat) := if s == "nil" then some none else (reg s).map some
  match a with
  | ["mk", t, p] => do some (.mk (← reg t) (← regOrNil p))
  | ["clone", t, r] => do some (.clone (← reg t) (← reg r))
  | ["add", r, x] => do some (.add (← reg r) (← x.toInt?))
  | ["has", r, x] => do some (.has (← reg r) (← x.toInt?))
  | ["each", r] => do some (.each (← reg r))
  | ["eache", r, x] => do let x ← x.toInt?; some (.eachErr (← reg r) (fun y => y == x))
  | ["addint", r, a, b] => do some (.addInter (← reg r) (← regOrNil a) (← regOrNil b))
  | ["empty", r] => do some (.isEmpty (← reg r))
  | _ => none

def showPsObs : PSObs Int → String
  | .done => "ok"
  | .goPanic => "panic"
  | .bool b => b01 b
  | .items l => showInts l
  | .itemsErr l stopped => showInts l ++ (if stopped then "!" else "ok")

def judgePs (opsS go : String) : Verdict :=
  let ops := splitOps opsS
  match ops.mapM parsePsOp with
  | none => .skip "bad-op"
  | some pops =>
    let M := PersistentSet.items Int
    let S := Verif.Spec.DS.PS.items Int
    let model := (M.run M.init pops).map showPsObs
    let spec := (S.run S.init pops).map showPsObs
    -- a nil receiver is outside the spec: the spec machine reports it as `panic` too, and a Go panic
    -- that the spec also reports is not a violation
    let goObs := splitObs go
    match firstDiff spec goObs with
    | some d => .violation ("ps-" ++ (ops.getD d.1 []).headD "?" ++ "-wrong") (describe ops d) (tagsOf "ps" ops goObs)
    | none => verdict "ps" ops go model spec []

/-! ### interval tree (shape is random: relation against the spec, exact against the model on the
     dumped shape) -/
section ist
open Verif.Model.DS.IntervalST

abbrev ITree := Tree Int
abbrev Entry := Interval × Int

def showIv (i : Interval) : String := toString i.min ++ "-" ++ toString i.max
def showEntry (e : Entry) : String := showIv e.1 ++ "=" ++ toString e.2
def showFound : Option Entry → String
  | none => "nil"
  | some e => showEntry e
def showEntries (l : List Entry) : String := "[" ++ ",".intercalate (l.map showEntry) ++ "]"

def entryLe (a b : Entry) : Bool :=
  a.1.min < b.1.min || (a.1.min == b.1.min && (a.1.max < b.1.max || (a.1.max == b.1.max && a.2 ≤ b.2)))
def sortEntries (l : List Entry) : List Entry := l.mergeSort entryLe
def sameMultiset (a b : List Entry) : Bool := sortEntries a == sortEntries b
def sameInts (a b : List Int) : Bool := a.mergeSort (· ≤ ·) == b.mergeSort (· ≤ ·)

/-- parse `a-b=v` -/
def parseEntry (s : String) : Option Entry :=
  match s.splitOn "=" with
  | [iv, v] =>
    match iv.splitOn "-" with
    | [a, b] => do some (⟨← a.toInt?, ← b.toInt?⟩, ← v.toInt?)
    | _ => none
  | _ => none

def parseEntryList (s : String) : Option (List Entry) :=
  if !(s.startsWith "[" && s.endsWith "]") then none else
  let body := ((s.drop 1).dropEnd 1).toString
  if body == "" then some [] else (body.splitOn ",").mapM parseEntry

def parseIntList (s : String) : Option (List Int) :=
  if !(s.startsWith "[" && s.endsWith "]") then none else
  let body := ((s.drop 1).dropEnd 1).toString
  if body == "" then some [] else (body.splitOn ",").mapM String.toInt?

/-- parse the pre-order dump `(a-b=v^max#n<left><right>` / `.` -/
partial def parseTree (cs : List Char) : Option (ITree × List Char) :=
  match cs with
  | '.' :: rest => some (.nil, rest)
  | '(' :: rest =>
    let hdr := rest.takeWhile (fun c => c != '(' && c != '.')
    let rest := rest.dropWhile (fun c => c != '(' && c != '.')
    match (String.ofList hdr).splitOn "#" with
    | [ev, n] =>
      match ev.splitOn "^" with
      | [e, m] => do
        let e ← parseEntry e
        let mx ← if m == "min" then some none else m.toInt?.map some
        let (l, rest) ← parseTree rest
        let (r, rest) ← parseTree rest
        some (.node e.1 e.2 mx l r (← n.toNat?), rest)
      | _ => none
    | _ => none
  | _ => none

/-- every node caches the size and max of its subtree -/
def allFixed : ITree → Bool
  | .nil => true
  | .node i v m l r n => allFixed l && allFixed r && decide (Tree.fix (.node i v m l r n) = .node i v m l r n)

def sortedBy (le : Entry → Entry → Bool) : List Entry → Bool
  | a :: b :: t => le a b && sortedBy le (b :: t)
  | _ => true

def depth : ITree → Nat
  | .nil => 0
  | .node _ _ _ l r _ => 1 + max (depth l) (depth r)

/-- is there a coin sequence under which the model's `Put` turns `prev` into `t`? -/
def someOracle (prev : ITree) (i : Interval) (v : Int) (t : ITree) : Bool :=
  (List.range (depth prev + 2)).any (fun k => decide (put prev i v (List.replicate k false ++ [true]) = t))

structure IstState where
  spec : List Entry := []
  shape : Option ITree := some .nil
  lastPut : Option (Option ITree × Interval × Int) := none
  viol : Option (Nat × String × String) := none     -- first contradiction of the spec
  diff : Option (Nat × String × String) := none     -- first difference from the model
  tags : List String := []

def IstState.v (st : IstState) (i : Nat) (want got : String) : IstState :=
  if st.viol.isSome then st else { st with viol := some (i, want, got) }
def IstState.d (st : IstState) (i : Nat) (want got : String) : IstState :=
  if st.diff.isSome then st else { st with diff := some (i, want, got) }
def IstState.tag (st : IstState) (t : String) : IstState :=
  if st.tags.contains t then st else { st with tags := t :: st.tags }

def istModelCheck (st : IstState) (i : Nat) (f : ITree → String) (go : String) : IstState :=
  match st.shape with
  | some t => if f t == go then st.tag "ist.model-exact" else st.d i (f t) go
  | none => st.tag "ist.shape-unknown"

def istStep (st : IstState) (i : Nat) (op : List String) (go : String) : IstState :=
  let int? (s : String) := s.toInt?
  match op with
  | ["put", a, b, v] | ["putraw", a, b, v] =>
    match int? a, int? b, int? v with
    | some a, some b, some v =>
      if op.head! == "put" && (newInterval a b).isNone then
        (if go == "panic" then st.tag "ist.put.illegal-interval-panic" else st.d i "panic" go)
      else if go != "ok" then st.v i "ok" go
      else { st with spec := (⟨a, b⟩, v) :: st.spec, shape := none,
                     lastPut := if st.lastPut.isNone then some (st.shape, ⟨a, b⟩, v) else some (none, ⟨a, b⟩, v) }
            |>.tag (if a == b then "ist.put.point" else "ist.put")
    | _, _, _ => st.d i "bad-op" go
  | ["dump"] =>
    match parseTree go.toList with
    | some (t, []) =>
      let st := if !allFixed t then st.v i "every node caches size and max of its subtree" go else st
      let st := if !sortedBy (fun a b => a.1.compare b.1 != .gt) (entries t) then st.v i "in-order entries sorted by (min,max)" go else st
      let st := if !sameMultiset (entries t) st.spec then st.v i ("entries " ++ showEntries (sortEntries st.spec)) go else st
      let st := match st.lastPut with
        | some (some prev, iv, v) =>
          if someOracle prev iv v t then st.tag "ist.put.oracle-found" else st.d i "a shape reachable by randomizedInsert under some coin sequence" go
        | _ => st
      { st with shape := some t, lastPut := none }
    | _ => st.d i "parsable dump" go
  | ["s", p] =>
    match int? p with
    | some p =>
      let st := istModelCheck st i (fun t => showFound (search t p)) go
      let hits := st.spec.filter (fun e => e.1.contains p)
      if go == "nil" then (if hits.isEmpty then st.tag "ist.s.none" else st.v i ("some interval containing the point, e.g. " ++ showEntries (hits.take 1)) go)
      else match parseEntry go with
        | some e => if hits.contains e then st.tag "ist.s.found" else st.v i (if hits.isEmpty then "nil" else "an entry containing the point") go
        | none => st.v i "nil or an entry" go
    | none => st.d i "bad-op" go
  | ["si", a, b] =>
    match int? a, int? b with
    | some a, some b =>
      let q : Interval := ⟨a, b⟩
      let st := istModelCheck st i (fun t => showFound (searchInterval t q)) go
      let hits := st.spec.filter (fun e => e.1.intersects q)
      if go == "nil" then (if hits.isEmpty then st.tag "ist.si.none" else st.v i ("some intersecting interval, e.g. " ++ showEntries (hits.take 1)) go)
      else match parseEntry go with
        | some e => if hits.contains e then st.tag "ist.si.found" else st.v i (if hits.isEmpty then "nil" else "an intersecting entry") go
        | none => st.v i "nil or an entry" go
    | _, _ => st.d i "bad-op" go
  | ["sa", p] =>
    match int? p with
    | some p =>
      let st := istModelCheck st i (fun t => showEntries (searchAllTop t p)) go
      let hits := st.spec.filter (fun e => e.1.contains p)
      match parseEntryList go with
      | some es => if sameMultiset es hits then st.tag (if hits.isEmpty then "ist.sa.empty" else if hits.length > 1 then "ist.sa.many" else "ist.sa.one")
                   else st.v i (showEntries (sortEntries hits) ++ " as a multiset") go
      | none => st.v i "a list of entries" go
    | none => st.d i "bad-op" go
  | ["get", a, b] | ["has", a, b] =>
    match int? a, int? b with
    | some a, some b =>
      let q : Interval := ⟨a, b⟩
      let isGet := op.head! == "get"
      let st := istModelCheck st i (fun t => if isGet then showOptVal (get t q) else b01 (contains t q)) go
      let hits := (st.spec.filter (fun e => e.1 == q)).map (·.2)
      if isGet then
        if go == "0:0" then (if hits.isEmpty then st.tag "ist.get.absent" else st.v i "a value stored under the interval" go)
        else if hits.any (fun v => toString v ++ ":1" == go) then st.tag (if hits.length > 1 then "ist.get.duplicate-interval" else "ist.get.present")
        else st.v i (if hits.isEmpty then "0:0" else "a value stored under the interval") go
      else if go == b01 (!hits.isEmpty) then st.tag ("ist.has." ++ go) else st.v i (b01 (!hits.isEmpty)) go
    | _, _ => st.d i "bad-op" go
  | ["vals"] =>
    let st := istModelCheck st i (fun t => showInts (values t)) go
    match parseIntList go with
    | some vs => if sameInts vs (st.spec.map (·.2)) then st.tag "ist.vals" else st.v i "all stored values as a multiset" go
    | none => st.v i "a list" go
  | ["chk"] =>
    let st := istModelCheck st i (fun t => b01 (check t)) go
    if go == "1" then st.tag "ist.chk" else st.v i "1" go
  | _ => st.d i "bad-op" go

def judgeIst (opsS go : String) : Verdict :=
  let ops := splitOps opsS
  let goObs := splitObs go
  if ops.length != goObs.length then .modelDiff "observation count differs from operation count" [] else
  let rec loop (st : IstState) (i : Nat) : List (List String) → List String → IstState
    | op :: ops, g :: gs => loop (istStep st i op g) (i + 1) ops gs
    | _, _ => st
  let st := loop {} 0 ops goObs
  let tags := (if ops.length > 1 then ["!nt"] else []) ++ st.tags
  match st.viol with
  | some d =>
    let opn := (ops.getD d.1 []).headD "?"
    .violation ("ist-" ++ opn ++ "-wrong") (describe ops d) tags
  | none =>
    match st.diff with
    | some d => .modelDiff (describe ops d) tags
    | none => .ok tags

end ist

end DsDrv

def judge (op : List String) (go : String) : Verdict :=
  match op with
  | ["ds", "om", init, ops] => DsDrv.judgeOm init ops go
  | ["ds", "bm", init, ops] => DsDrv.judgeBm init ops go
  | ["ds", "ist", _, ops] => DsDrv.judgeIst ops go
  | ["ds", "ps", _, ops] => DsDrv.judgePs ops go
  | ["ds", _, _, _] => .skip "kind-not-modelled-yet"
  | _ => .skip "unknown-op"

def main : IO Unit := runDriver judge
