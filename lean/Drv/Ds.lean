import Verif.Util.Proto
import Verif.Model.DS.Ops
import Verif.Model.DS.OrderedMap
import Verif.Model.DS.BiMap
import Verif.Spec.DS
/-! Driver for stream `ds` (C51): one line = one operation sequence on one structure.
    `ds <kind> <init> op|op|…  =>  obs;obs;…`  The driver runs the code-shaped model *and* the spec. -/
open Verif.Proto Verif.DS Verif.Model.DS

namespace DsDrv

def b01 (b : Bool) : String := if b then "1" else "0"
def showInts (l : List Int) : String := "[" ++ ",".intercalate (l.map toString) ++ "]"
def showKV (p : Int × Int) : String := toString p.1 ++ "=" ++ toString p.2
def showOptVal : Option Int → String
  | none => "0:0"
  | some v => toString v ++ ":1"

/-- parse the op field: `a:b:c|d:e` -/
def splitOps (s : String) : List (List String) :=
  if s == "-" || s == "" then [] else (s.splitOn "|").map (fun o => o.splitOn ":")

def splitObs (s : String) : List String := if s == "-" then [] else s.splitOn ";"

def parsePred (p : String) : Option (Int → Bool) :=
  if p == "t" then some (fun _ => true)
  else if p == "f" then some (fun _ => false)
  else if p == "ev" then some (fun k => k % 2 == 0)
  else if p.startsWith "lt" then (p.drop 2).toInt?.map (fun n => fun k => decide (k < n))
  else if p.startsWith "ge" then (p.drop 2).toInt?.map (fun n => fun k => decide (k ≥ n))
  else if p.startsWith "eq" then (p.drop 2).toInt?.map (fun n => fun k => k == n)
  else none

/-- coarse shape of an observation, for the branch histogram -/
def obsShape (o : String) : String :=
  if o == "ok" || o == "nil" || o == "nopair" || o == "panic" || o == "0" || o == "1" then o
  else if o.endsWith ":0" then "absent" else if o.endsWith ":1" then "present"
  else if o == "[]" || o == "[]ok" || o == "." then "empty"
  else if o.startsWith "0[" then "false" else if o.startsWith "1[" then "true"
  else if o.endsWith "!" then "stopped"
  else "some"

def tagsOf (kind : String) (ops : List (List String)) (obs : List String) : List String :=
  let raw := (ops.zip obs).map (fun (o, r) => kind ++ "." ++ o.headD "?" ++ "." ++ obsShape r)
  raw.eraseDups

/-- first index where the two observation lists differ (`*` in `want` matches anything) -/
def firstDiff (want got : List String) : Option (Nat × String × String) :=
  let rec go (i : Nat) : List String → List String → Option (Nat × String × String)
    | [], [] => none
    | w :: ws, g :: gs => if w == g || w == "*" then go (i + 1) ws gs else some (i, w, g)
    | w :: _, [] => some (i, w, "<missing>")
    | [], g :: _ => some (i, "<none>", g)
  go 0 want got

def describe (ops : List (List String)) (d : Nat × String × String) : String :=
  "op#" ++ toString d.1 ++ " " ++ ":".intercalate (ops.getD d.1 []) ++ " expected " ++ d.2.1 ++ " got " ++ d.2.2

/-- common verdict: Go vs spec (VIOLATION), then Go vs model (MODELDIFF) -/
def verdict (kind : String) (ops : List (List String)) (go : String) (model spec : List String)
    (extraTags : List String) : Verdict :=
  let goObs := splitObs go
  let tags := extraTags ++ tagsOf kind ops goObs
  let tags := if ops.length > 1 then "!nt" :: tags else tags
  match firstDiff spec goObs with
  | some d =>
    let opn := (ops.getD d.1 []).headD "?"
    let cls := if d.2.2 == "panic" then kind ++ "-go-panic" else kind ++ "-" ++ opn ++ "-wrong"
    .violation cls (describe ops d) tags
  | none =>
    match firstDiff model goObs with
    | some d => .modelDiff (describe ops d) tags
    | none => .ok tags

/-! ### ordered map -/

def parseOmOp (a : List String) : Option (OMOp Int Int) :=
  let reg (s : String) : Option Nat := s.toNat?.map (· % 3)
  match a with
  | ["set", r, k, v] => do some (.set (← reg r) (← k.toInt?) (← v.toInt?))
  | ["get", r, k] => do some (.get (← reg r) (← k.toInt?))
  | ["has", r, k] => do some (.has (← reg r) (← k.toInt?))
  | ["pair", r, k] => do some (.pair (← reg r) (← k.toInt?))
  | ["del", r, k] => do some (.del (← reg r) (← k.toInt?))
  | ["len", r] => do some (.len (← reg r))
  | ["old", r] => do some (.oldest (← reg r))
  | ["new", r] => do some (.newest (← reg r))
  | ["nxt", r, k] => do some (.next (← reg r) (← k.toInt?))
  | ["prv", r, k] => do some (.prev (← reg r) (← k.toInt?))
  | ["each", r] => do some (.each (← reg r))
  | ["eachi", r] => do some (.eachIdx (← reg r))
  | ["eache", r, k] => do let k ← k.toInt?; some (.eachErr (← reg r) (fun x => x == k))
  | ["all", r, p] => do some (.all (← reg r) (← parsePred p))
  | ["any", r, p] => do some (.any (← reg r) (← parsePred p))
  | ["disj", r, s] => do some (.disj (← reg r) (← reg s))
  | ["inter", r, s, t] => do some (.inter (← reg r) (← reg s) (← reg t))
  | ["union", r, s, t] => do some (.union (← reg r) (← reg s) (← reg t))
  | ["setall", r, s] => do if s == "nil" then some (.setAll (← reg r) none) else some (.setAll (← reg r) (some (← reg s)))
  | ["clear", r] => do some (.clear (← reg r))
  | _ => none

def showOmObs : OMObs Int Int → String
  | .done => "ok"
  | .val o => showOptVal o
  | .bool b => b01 b
  | .nat n => toString n
  | .pair none => "nil"
  | .pair (some p) => showKV p
  | .noPair => "nopair"
  | .pairs l => "[" ++ ",".intercalate (l.map showKV) ++ "]"
  | .idxPairs l => "[" ++ ",".intercalate (l.map (fun (i, k, v) => toString i ++ ":" ++ showKV (k, v))) ++ "]"
  | .pairsErr l stopped => "[" ++ ",".intercalate (l.map showKV) ++ "]" ++ (if stopped then "!" else "ok")
  | .boolKeys b vis => b01 b ++ showInts vis

def judgeOm (init : String) (opsS go : String) : Verdict :=
  let ops := splitOps opsS
  match ops.mapM parseOmOp with
  | none => .skip "bad-op"
  | some pops =>
    let zeroValue : Nat → Bool := fun r => (init.toList.getD r 'n') == 'z'
    let M := OrderedMap.impl Int Int
    let S := Verif.Spec.DS.OM.impl Int Int
    let model := (M.run (M.init zeroValue) pops).map showOmObs
    let spec := (S.run (S.init zeroValue) pops).map showOmObs
    verdict "om" ops go model spec ["om.init." ++ init]

/-! ### bimap -/

def parseBmOps (a : List String) : Option (List (BMOp Int Int)) :=
  match a with
  | ["ins", k, v] => do some [.insert (← k.toInt?) (← v.toInt?)]
  | ["ex", k] => do some [.exists_ (← k.toInt?)]
  | ["exi", v] => do some [.existsInverse (← v.toInt?)]
  | ["get", k] => do some [.get (← k.toInt?)]
  | ["geti", v] => do some [.getInverse (← v.toInt?)]
  | ["del", k] => do some [.delete (← k.toInt?)]
  | ["deli", v] => do some [.deleteInverse (← v.toInt?)]
  | ["size"] => some [.size]
  | ["probe", n] => do
    let n ← n.toNat?
    some ((List.range n).flatMap (fun (i : Nat) => [BMOp.get (Int.ofNat i), BMOp.getInverse (Int.ofNat i)]))
  | _ => none

def showBmObs : BMObs Int Int → String
  | .done => "ok"
  | .goPanic => "panic"
  | .bool b => b01 b
  | .val o => showOptVal o
  | .key o => showOptVal o
  | .nat n => toString n

/-- group the observations of a `probe:n` (2n primitive observations) back into one string -/
def regroupBm (ops : List (List String)) (obs : List String) : List String :=
  let rec go : List (List String) → List String → List String
    | [], _ => []
    | ["probe", n] :: rest, obs =>
      let k := 2 * n.toNat!
      let mine := obs.take k
      let rec pairUp : List String → List String
        | a :: b :: t => (a ++ "/" ++ b) :: pairUp t
        | _ => []
      ("[" ++ ",".intercalate (pairUp mine) ++ "]") :: go rest (obs.drop k)
    | _ :: rest, o :: obs => o :: go rest obs
    | _ :: _, [] => []
  go ops obs

/-- put the wildcard `*` at the positions of `ins` operations -/
def weaveIns : List (List String) → List String → List String
  | [], _ => []
  | ("ins" :: _) :: rest, l => "*" :: weaveIns rest l
  | _ :: rest, o :: l => o :: weaveIns rest l
  | _ :: _, [] => []

def judgeBm (init : String) (opsS go : String) : Verdict :=
  let ops := splitOps opsS
  match ops.mapM parseBmOps with
  | none => .skip "bad-op"
  | some popss =>
    let pops := popss.flatten
    let m0 : BiMap.BM Int Int := if init == "z" then .zero else BiMap.new
    let model := regroupBm ops ((BiMap.run m0 pops).map showBmObs)
    -- the spec speaks about maps made by NewBiMap; on the zero value an Insert is outside the spec
    -- (Go panics like any write to a nil map): its observation is not judged, the state stays empty
    let spec :=
      if init == "z" then
        let opsNoIns := ops.filter (fun o => o.headD "" != "ins")
        let popsNoIns := pops.filter (fun o => match o with | .insert _ _ => false | _ => true)
        weaveIns ops (regroupBm opsNoIns ((Verif.Spec.DS.BM.run ([] : List (Int × Int)) popsNoIns).map showBmObs))
      else regroupBm ops ((Verif.Spec.DS.BM.run ([] : List (Int × Int)) pops).map showBmObs)
    verdict "bm" ops go model spec ["bm.init." ++ init]

end DsDrv

def judge (op : List String) (go : String) : Verdict :=
  match op with
  | ["ds", "om", init, ops] => DsDrv.judgeOm init ops go
  | ["ds", "bm", init, ops] => DsDrv.judgeBm init ops go
  | ["ds", _, _, _] => .skip "kind-not-modelled-yet"
  | _ => .skip "unknown-op"

def main : IO Unit := runDriver judge
