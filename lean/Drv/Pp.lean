import Verif.Util.Proto
import Verif.Model.Front.Pratt
import Verif.Model.Front.ExprWf
import Verif.Model.Front.StrLit
/-!
Driver for stream `pp` (C38).  Ops: `pp expr|type|prog|progx|str <payload>`; see
`harness/cmd/vharness/stream_pp.go` for the observations.

Spec oracle (independent of the ports): the Go round trip verdict must be `rt-ok`.  Anything else is a
VIOLATION whose class is computed from the S-expression of the failing (sub-)expression / the JSON diff
summary; the classes of the recorded findings are documented in known_findings.d/C38.json.

Model comparison (expressions and types inside the ports' fragment):
  * lexemes of `printExpr e`   = lexemes of Go's printed form,
  * `parseAll (source tokens)` = Go's AST,   `parseAll (Go's printed tokens)` = Go's re-parsed AST,
  * the port's own round trip `parseAll (printExpr e) = some e` whenever Go's round trip is ok.
-/
open Verif.Proto Verif.Model.Front.Syn Verif.Model.Front.StrLit

def sepStr : String := " \x1f "

/-- token list as written by the harness: tokens separated by single spaces, `~` prefix = preceded by
    white space -/
def readToks (s : String) : List Tok :=
  if s == "-" then [] else
  (s.splitOn " ").filterMap fun w =>
    if w.isEmpty then none else
    let sp := w.startsWith "~"
    let txt := if sp then (w.drop 1).toString else w
    match txt.toList with
    | [] => none
    | c :: _ =>
      let kind : TokKind :=
        if txt == "as?" || txt == "as!" then .sym
        else if c.isAlpha || c == '_' then .ident
        else if c.isDigit then (if txt.contains '.' then .fix else .int)
        else .sym
      some ⟨kind, txt, sp⟩

def ctorTag : Expr → String
  | .ident _ => "ident" | .int .. => "int" | .fix .. => "fix" | .bool _ => "bool" | .nil => "nil" | .void => "void"
  | .unary .. => "unary" | .ref _ => "ref" | .force _ => "force" | .binary .. => "binary" | .cast .. => "cast"
  | .cond .. => "cond" | .member .. => "member" | .index .. => "index" | .invoke .. => "invoke"
  | .argsNil => "args" | .argsCons .. => "args"

def isAtom : Expr → Bool
  | .ident _ | .int .. | .fix .. | .bool _ | .nil | .void => true
  | _ => false

/-! ### classes of the recorded findings (predicates over the S-expression of the failing node) -/

/-- `&(&x)` prints as `&&x` (expression level; an existing unit test pins that output) -/
def clsRefOfRef (t : SX) : Bool :=
  t.any fun n => match n with
    | .list [.atom "ref", .list [.atom "ref", _]] => true
    | _ => false

/-- first operand chain: what the printed form of `t` starts with (when no parentheses intervene) -/
partial def leftEdgeHas (p : SX → Bool) (t : SX) : Bool :=
  p t || (match t with
    | .list [.atom "bin", _, l, _] => leftEdgeHas p l
    | .list [.atom "cast", _, e, _] => leftEdgeHas p e
    | .list [.atom "cond", c, _, _] => leftEdgeHas p c
    | .list [.atom "force", e] => leftEdgeHas p e
    | .list [.atom "mem", e, _] => leftEdgeHas p e
    | .list [.atom "omem", e, _] => leftEdgeHas p e
    | .list [.atom "idx", e, _] => leftEdgeHas p e
    | .list [.atom "inv", e, _, _] => leftEdgeHas p e
    | _ => false)

/-- last operand chain: what the printed form of `t` ends with -/
partial def rightEdgeHas (p : SX → Bool) (t : SX) : Bool :=
  p t || (match t with
    | .list [.atom "bin", _, _, r] => rightEdgeHas p r
    | .list [.atom "un", _, e] => rightEdgeHas p e
    | .list [.atom "ref", e] => rightEdgeHas p e
    | .list [.atom "cond", _, _, e] => rightEdgeHas p e
    | _ => false)

def isBin (op : String) : SX → Bool
  | .list [.atom "bin", .atom o, _, _] => o == op
  | _ => false

/-- a `<` whose right operand begins with a `>` comparison, or a `>` whose left operand ends with a `<`
    comparison: the printed form contains `a < T > (`-like text, which the parser's `<` meta left
    denotation tries as type arguments of an invocation (`(a < b) > (c)` prints `a < b > (c)`) -/
def clsComparisonChain (t : SX) : Bool :=
  t.any fun n => match n with
    | .list [.atom "bin", .atom "<", _, r] => leftEdgeHas (isBin ">") r
    | .list [.atom "bin", .atom ">", l, _] => rightEdgeHas (isBin "<") l
    | _ => false

/-- `a < (fun () {})` prints `a < fun () {}`: after `<` the speculative type-argument parse reads
    `fun (` as a function type and reports its error instead of falling back to the comparison -/
def clsLessFun (t : SX) : Bool :=
  t.any fun n => match n with
    | .list [.atom "bin", .atom "<", _, r] =>
      leftEdgeHas (fun x => match x with | .list [.atom "oof", .atom k] => k == "*ast.FunctionExpression" | _ => false) r
    | _ => false

/-- the right edge of `t` (through unauthorized references) is a function type -/
partial def rightEdgeFun : SX → Bool
  | .list (.atom "funT" :: _) => true
  | .list [.atom "ref", .list [.atom "noauth"], t] => rightEdgeFun t
  | _ => false

/-- `(&fun(): T)?` prints as `&fun(): T?` -/
def clsOptRefFun (t : SX) : Bool :=
  t.any fun n => match n with
    | .list [.atom "opt", .list [.atom "ref", .list [.atom "noauth"], u]] => rightEdgeFun u
    | _ => false

/-- `a < (destroy {…})`: the speculative type-argument parse after `<` reads `(destroy {` as a removed
    restricted type and reports that error instead of falling back to a comparison -/
def clsLessDestroyDict (t : SX) : Bool :=
  t.any fun n => match n with
    | .list [.atom "bin", .atom "<", _, .list [.atom "destroy", .list (.atom "dict" :: _)]] => true
    | _ => false

def classifySx (t : SX) : String :=
  if clsRefOfRef t then "ref-of-ref-prints-logical-and"
  else if clsComparisonChain t then "comparison-chain-reparsed-as-type-arguments"
  else if clsOptRefFun t then "optional-of-reference-to-function-type"
  else if clsLessDestroyDict t then "less-than-before-parenthesised-destroy-dictionary"
  else if clsLessFun t then "less-than-before-function-expression"
  else "roundtrip-mismatch"

/-- program-level failures without a failing sub-expression: the JSON diff summary decides -/
def classifyDiag (kind verdict diag : String) : String :=
  if diag == "Else:empty-Block/null" then "empty-else-block-dropped"
  else if diag == "ParameterList:empty-{Parameters}/null" then "empty-transaction-parameter-list-dropped"
  else if kind == "progx" && (verdict == "rt-err" || diag.startsWith "Statements:" || diag.startsWith "Conditions:"
      || diag.startsWith "PreConditions:" || diag.startsWith "PostConditions:") then
    "statement-boundary-depends-on-line-start"
  else "roundtrip-mismatch"

def judgeExpr (res : List String) : Verdict :=
  match res with
  | [v, astS, srcS, prtS, reS] =>
    match SX.parse astS with
    | none => .skip "bad-sexpr"
    | some sx =>
      let spec : Option Verdict :=
        if v == "rt-ok" then none else some (.violation (classifySx sx) "rt-ok" [v])
      match readExpr sx with
      | none =>
        (match spec with
         | some vd => vd
         | none => .ok ["out-of-port"])
      | some e =>
        -- `wf` = inside the domain of the theorem `expr_roundtrip_partial`
        let tags := [ctorTag e, if e.wf then "wf" else "non-wf"] ++ (if isAtom e then [] else ["!nt"])
        match spec with
        | some vd => vd
        | none =>
          let src := readToks srcS
          let prt := readToks prtS
          let mine := printE e
          if lexemes mine != lexemes prt then
            .modelDiff ("print:" ++ " ".intercalate (lexemes mine)) tags
          else if parseAll mine != some e then
            .modelDiff "port-roundtrip-fails" tags
          else
            -- `<` may start type arguments: the port has no speculative parse
            let ltAmbig := src.any (fun t => t.text == "<")
            let pSrc := parseAll src
            let pPrt := parseAll prt
            let reOk := (SX.parse reS).bind readExpr == some e
            if !ltAmbig && pSrc != some e then
              .modelDiff ("parse-src:" ++ (match pSrc with | some x => showExpr x | none => "none")) tags
            else if !ltAmbig && pPrt != some e then
              .modelDiff ("parse-printed:" ++ (match pPrt with | some x => showExpr x | none => "none")) tags
            else if !reOk then .modelDiff "go-reparse-sexpr-differs" tags
            else .ok (tags ++ (if ltAmbig then ["lt-skip-parse"] else []))
  | _ => .skip "bad-result"

def judgeType (res : List String) : Verdict :=
  match res with
  | [v, astS, srcS, prtS, _reS] =>
    match SX.parse astS with
    | none => .skip "bad-sexpr"
    | some sx =>
      if v != "rt-ok" then .violation (classifySx sx) "rt-ok" [v] else
      match readTy sx with
      | none => .ok ["out-of-port"]
      | some t =>
        let tags := ["type", if t.wf then "wf" else "non-wf", "!nt"]
        let mine := mergeQ (printTy t)
        if lexemes mine != lexemes (readToks prtS) then .modelDiff ("print:" ++ " ".intercalate (lexemes mine)) tags
        else if parseTyAll mine != some t then .modelDiff "port-roundtrip-fails" tags
        else if parseTyAll (readToks srcS) != some t then .modelDiff "parse-src" tags
        else if parseTyAll (readToks prtS) != some t then .modelDiff "parse-printed" tags
        else .ok tags
  | _ => .skip "bad-result"

def judge (op : List String) (go : String) : Verdict :=
  let res := go.splitOn sepStr
  match op with
  | ["pp", "expr", _] => if go == "reject" then .skip "reject" else judgeExpr res
  | ["pp", "type", _] => if go == "reject" then .skip "reject" else judgeType res
  | ["pp", kind, _] =>
    if kind == "prog" || kind == "progx" then
      if go == "reject" then .skip "reject"
      else if go == "rt-ok" then .ok [kind, "!nt"]
      else if go == "panic" || go == "hang" then .violation "go-panic-or-hang" "rt-ok" [go]
      else match res with
        | v :: sub :: rest =>
          if sub == "-" then .violation (classifyDiag kind v (rest.headD "")) "rt-ok" [v]
          else match SX.parse sub with
            | some sx => .violation (classifySx sx) "rt-ok" [v]
            | none => .violation "roundtrip-mismatch" "rt-ok" [v]
        | _ => .violation "roundtrip-mismatch" "rt-ok" [go]
    else if kind == "str" then
      match res with
      | [v, qhex] =>
        match op with
        | [_, _, hex] =>
          (match parseHex hex, parseHex qhex with
           | some bs, some qs =>
             if v != "rt-ok" then .violation "string-escape-roundtrip" "rt-ok" [v] else
             match utf8Decode bs with
             | none => .skip "not-utf8"
             | some cs =>
               let q := quoteString cs
               if utf8Encode q != qs then .modelDiff ("quote:" ++ toHex (utf8Encode q)) ["str"]
               else if parseStringLiteral q != some cs then .modelDiff "port-unescape-differs" ["str"]
               else .ok (["str"] ++ (if cs.any (fun c => c.toNat < 0x20 || c.toNat > 0x7e || c == '\\' || c == '"') then ["!nt", "escaped"] else []))
           | _, _ => .skip "bad-hex")
        | _ => .skip "bad-op"
      | _ => .skip "bad-result"
    else .skip "unknown-op"
  | _ => .skip "unknown-op"

def main : IO Unit := runDriver judge
