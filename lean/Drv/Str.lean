import Verif.Util.Proto
import Verif.Model.Str
import Verif.Spec.Str
/-! Driver for stream `str` (C19).  Line: `str <mode> <op> args…`; strings are cluster lists
`hex.hex.…` (`-` = empty).  See `harness/cmd/vharness/stream_str.go`. -/
open Verif.Proto Verif.Model.Str

def parseStr (s : String) : Option Str :=
  if s == "-" then some ⟨[]⟩
  else do
    let cs ← (s.splitOn ".").mapM parseHex
    pure ⟨cs⟩

def hexOrEmpty (b : Bytes) : String := toHex b

def errStr : Err → String
  | .sliceIndices => "err:slice-indices"
  | .invalidSliceIndex => "err:invalid-slice"
  | .indexOutOfBounds => "err:index"
  | .invalidHexByte b => "err:hexbyte:" ++ (toHex [b])
  | .invalidHexLength => "err:hexlength"

def render (r : Except Err String) : String :=
  match r with
  | .ok s => "ok:" ++ s
  | .error e => errStr e

/-- the spec's answers, computed on cluster lists only -/
def specIndex (s : Str) (needle : Bytes) : Int :=
  if needle.isEmpty then 0 else
  match Verif.Spec.Str.indexOf s.clusters needle 0 with
  | some i => i
  | none => -1

def specCount (s : Str) (needle : Bytes) : Nat :=
  if needle.isEmpty then 1 + s.clusters.length
  else Verif.Spec.Str.count needle (s.clusters.length + 1) s.clusters

def specSplit (s : Str) (sep : Bytes) : List Bytes :=
  if sep.isEmpty then s.clusters
  else (Verif.Spec.Str.split sep (s.clusters.length + 1) s.clusters).map List.flatten

/-- the segmentation assumption of theorems `count` / `split_join` (`SegStable`), decided: every aligned
occurrence of the needle spans as many clusters as the needle has on its own -/
def segStable (s n : Str) : Bool :=
  (List.range s.clusters.length).all (fun i =>
    !Verif.Spec.Str.alignedPrefix (s.clusters.drop i) n.bytes ||
      Verif.Spec.Str.spanLen (s.clusters.drop i) n.bytes == n.clusters.length)

/-- script results carry no byte in the hex-byte error -/
def sameResult (mode go m : String) : Bool :=
  go == m || (mode != "direct" && go == "err:hexbyte" && m.startsWith "err:hexbyte:")

def isAscii (b : Bytes) : Bool := b.all (fun x => x.toNat < 128)

def judge (op : List String) (go : String) : Verdict :=
  match op with
  | "str" :: mode :: name :: args =>
    let fin (m : String) (spec : Option String) (tags : List String) : Verdict :=
      if go == "panic" || go == "hang" || go.startsWith "err-" then .violation "go-panic-or-internal" "value or user error" tags
      else match spec with
        | some sp => if !sameResult mode go sp then .violation "wrong-value" sp tags
                     else if sameResult mode go m then .ok ("!nt" :: mode :: tags) else .modelDiff m tags
        | none => if sameResult mode go m then .ok ("!nt" :: mode :: tags) else .modelDiff m tags
    match name, args with
    | "len", [s] =>
      match parseStr s with
      | some s => fin ("ok:" ++ toString s.length) (some ("ok:" ++ toString s.clusters.length)) ["len", if s.clusters.isEmpty then "empty" else "nonempty"]
      | none => .skip "bad-op"
    | "get", [s, i] =>
      match parseStr s, i.toInt? with
      | some s, some i =>
        let m := render ((s.getKey i).map toHex)
        let spec := if i < 0 ∨ i ≥ s.clusters.length then "err:index" else "ok:" ++ toHex (s.clusters.getD i.toNat [])
        fin m (some spec) ["get", if m.startsWith "ok" then "in-range" else "out-of-range"]
      | _, _ => .skip "bad-op"
    | "slice", [s, a, b] =>
      match parseStr s, a.toInt?, b.toInt? with
      | some s, some a, some b =>
        let m := render ((s.sliceBytes a b).map toHex)
        let m2 := render ((s.slice a b).map (fun r => toHex r.bytes))
        let failsSpec : Bool := a < 0 || b > s.clusters.length || a > b
        let spec := if failsSpec then none else some ("ok:" ++ toHex (Verif.Spec.Str.slice s.clusters a.toNat b.toNat).flatten)
        let tags := ["slice", if m.startsWith "ok" then (if a == b then "empty-result" else "ok") else m]
        if go == "panic" || go == "hang" || go.startsWith "err-" then .violation "go-panic-or-internal" "value or user error" tags
        else if failsSpec && go.startsWith "ok" then .violation "slice-accepts-bad-bounds" "error" tags
        else if !failsSpec && spec != some go then .violation "wrong-value" (spec.getD "") tags
        else if go == m && m == m2 then .ok ("!nt" :: mode :: tags) else .modelDiff (m ++ "|" ++ m2) tags
      | _, _, _ => .skip "bad-op"
    | "iter", [s] =>
      match parseStr s with
      | some s => let m := "ok:" ++ ".".intercalate (s.clusters.map toHex)
                  fin m (some m) ["iter"]
      | none => .skip "bad-op"
    | "utf8", [s] =>
      match parseStr s with
      | some s => fin ("ok:" ++ toHex s.utf8) (some ("ok:" ++ toHex s.clusters.flatten)) ["utf8"]
      | none => .skip "bad-op"
    | "index", [s, n] =>
      match parseStr s, parseStr n with
      | some s, some n =>
        let mi : Int := match s.indexOf n.bytes with | some (i, _) => i | none => -1
        let first := indexFrom s.bytes n.bytes (s.bytes.length + 1) 0
        -- the aligned occurrence starts inside an earlier byte-level occurrence that is not aligned
        let overlapsRejected : Bool := match s.indexOf n.bytes, first with
          | some (_, q), some p => !n.bytes.isEmpty && p < q && q < p + n.bytes.length
          | _, _ => false
        let tags := ["index", if n.bytes.isEmpty then "empty-needle" else if mi < 0 then
            (if first.isSome then "misaligned-only" else "absent")
            else if overlapsRejected then "found-overlapping-a-misaligned-occurrence"
            else if first != (s.indexOf n.bytes).map (·.2) then "found-after-misaligned" else "found"]
        fin ("ok:" ++ toString mi) (some ("ok:" ++ toString (specIndex s n.bytes))) tags
      | _, _ => .skip "bad-op"
    | "contains", [s, n] =>
      match parseStr s, parseStr n with
      | some s, some n =>
        let b (x : Bool) := if x then "1" else "0"
        fin ("ok:" ++ b (s.contains n.bytes)) (some ("ok:" ++ b (specIndex s n.bytes ≥ 0))) ["contains", b (s.contains n.bytes)]
      | _, _ => .skip "bad-op"
    | "count", [s, n] =>
      match parseStr s, parseStr n with
      | some s, some n =>
        let c := s.count n
        fin ("ok:" ++ toString c) (some ("ok:" ++ toString (specCount s n.bytes)))
          ["count", if n.bytes.isEmpty then "empty-needle" else if c == 0 then "zero" else if c == 1 then "one" else "many",
           if segStable s n then "seg-stable" else "seg-UNSTABLE"]
      | _, _ => .skip "bad-op"
    | "split", [s, sep] =>
      match parseStr s, parseStr sep with
      | some s, some sep =>
        let parts := (s.split sep).map (fun p => toHex p.bytes)
        let sp := (specSplit s sep.bytes).map toHex
        fin ("ok:" ++ ",".intercalate parts) (some ("ok:" ++ ",".intercalate sp))
          ["split", if sep.bytes.isEmpty then "explode" else if parts.length == 1 then "no-sep" else "parts",
           if segStable s sep then "seg-stable" else "seg-UNSTABLE"]
      | _, _ => .skip "bad-op"
    | "replace", [s, o, r] =>
      match parseStr s, parseStr o, parseStr r with
      | some s, some o, some r =>
        let m := "ok:" ++ toHex (s.replaceAll o r.bytes)
        -- spec: the parts of the aligned split joined by the replacement
        let sp := if o.bytes.isEmpty then none
                  else some ("ok:" ++ toHex (joinBytes r.bytes (specSplit s o.bytes)))
        fin m sp ["replace", if o.bytes.isEmpty then "empty-orig" else if s.count o == 0 then "none" else "some"]
      | _, _, _ => .skip "bad-op"
    | "concat", [a, b, r] =>
      match parseStr a, parseStr b, parseStr r with
      | some a, some b, some r =>
        let stable := a.concatBytes b == r.bytes
        -- the normalised bytes come from the harness; the model contributes the raw concatenation
        let m := "ok:" ++ toHex (if stable then a.concatBytes b else r.bytes) ++ ":" ++ toString r.length
        fin m none ["concat", if stable then "nfc-stable" else "renormalised"]
      | _, _, _ => .skip "bad-op"
    | "mconcat", [how, a, b, r] =>
      match parseStr a, parseStr b, parseStr r with
      | some a, some b, some r =>
        -- spec: the result is the NFC string `r` (supplied by the harness) and every observation of its
        -- length is the number of clusters of `r`, whatever was evaluated on the operands before
        let n := toString r.clusters.length
        let sp := "ok:" ++ toHex r.clusters.flatten ++ ":" ++ n ++ ":" ++ n ++ ":1:" ++ n
        let stable := a.concatBytes b == r.bytes
        let m := "ok:" ++ toHex (if stable then a.concatBytes b else r.bytes) ++ ":" ++ toString r.length ++ ":" ++
          toString r.clusters.length ++ ":1:" ++ toString r.length
        fin m (some sp) ["mconcat", "measured-by-" ++ how,
          if r.clusters.length < a.clusters.length + b.clusters.length then "junction-merges" else "junction-clean",
          if stable then "nfc-stable" else "renormalised"]
      | _, _, _ => .skip "bad-op"
    | "join", sep :: r :: parts =>
      match parseStr sep, parseStr r, parts.mapM parseStr with
      | some sep, some r, some parts =>
        let raw := joinBytes sep.bytes (parts.map Str.bytes)
        let stable := raw == r.bytes
        let m := "ok:" ++ toHex (if stable then raw else r.bytes) ++ ":" ++ toString r.length
        fin m none ["join", toString parts.length ++ "-parts", if stable then "nfc-stable" else "renormalised"]
      | _, _, _ => .skip "bad-op"
    | "norm", [_raw, r] =>
      match parseStr r with
      | some r => fin ("ok:" ++ toHex r.bytes ++ ":" ++ toString r.length) none ["norm"]
      | none => .skip "bad-op"
    | "enchex", [h] =>
      match parseHex h with
      | some bs => let m := "ok:" ++ toHex (encodeHex bs)
                   -- spec: decoding the answer gives the input back
                   fin m (some m) ["enchex"]
      | none => .skip "bad-op"
    | "dechex", [s] =>
      match parseStr s with
      | some s =>
        let m := render ((decodeHex s.bytes).map toHex)
        fin m none ["dechex", if m.startsWith "ok" then "ok" else (m.take 10).toString]
      | none => .skip "bad-op"
    | "lower", [s] =>
      match parseStr s with
      | some s =>
        if !isAscii s.bytes then .skip "non-ascii-lower"
        else fin ("ok:" ++ toHex (toLowerAscii s.bytes)) none ["lower"]
      | none => .skip "bad-op"
    | _, _ => .skip "unknown-op"
  | _ => .skip "unknown-op"

def main : IO Unit := runDriver judge
