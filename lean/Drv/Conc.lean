import Verif.Util.Proto
import Verif.Model.Caches
/-! Driver for stream `conc` (C36).  The spec — each program gets the same outcome, messages, logs,
events, ledger and metering sequence when run concurrently with others as when run alone — is judged
directly on the observation of the child process. -/
open Verif.Proto Verif.Model.Caches

def judge (op : List String) (go : String) : Verdict :=
  match op with
  | "conc" :: engine :: procs :: _seed :: progs =>
    let n := progs.length / 3
    let srcs := progs.zipIdx.filterMap (fun (s, i) => if i % 3 == 2 then some s else none)
    let has (w : String) : Bool := srcs.any (fun s => (s.splitOn w).length > 1)
    let tags := [engine, s!"threads={n}", s!"procs={procs}"] ++
      (if has "import " then ["shared-contracts"] else []) ++
      (if has "auth(" then ["entitlements"] else []) ++
      (if has "InclusiveRange" then ["smallint-cache"] else []) ++
      (if has "transaction" then ["transactions"] else [])
    if go.startsWith "same ;; " then .ok ("!nt" :: tags)
    else if go.startsWith "race:" then
      .violation "data-race" "no data race between concurrent checks / executions (race detector report)" tags
    else if go.startsWith "crash:" then
      .violation "concurrent-crash" "concurrent checks / executions do not crash the process" tags
    else if go.startsWith "meterdiff:" then
      -- narrow, documented class: only GraphemesIteration charges differ, VM engine, outcome identical
      if engine == "vm" && (go.splitOn "only=comp(GraphemesIteration) ").length > 1 then
        .violation "vm-shared-string-constant-length-memo"
          "the same metering call sequence alone and concurrently (here: the grapheme-length memo of a string constant of a shared compiled program is filled, and metered, by the first user only)" tags
      else .violation "metering-differs-under-concurrency" "the same metering call sequence alone and concurrently" tags
    else if go.startsWith "diff:" then
      .violation "outcome-differs-under-concurrency" "the same errors, results, logs, events and ledger as when run alone" tags
    else if go == "panic" || go == "hang" then .violation "go-panic-or-hang" "no crash" tags
    else .modelDiff ("unexpected observation: " ++ (go.take 80).toString) tags
  | _ => .skip "unknown-op"

def main : IO Unit := runDriver judge
