import Verif.Util.Proto
import Verif.Model.Front.Lexer
/-! Driver for stream `parsecheck` (direct oracle, exploration in support of C37's parser/checker part):
op `parsecheck hex(input)`, Go result `p-* c-* len=<n> errs=<k> min=<o> max=<o> [bad=...]`.
Requirements judged here: no crash, no hang, no internal error, every reported position inside `[0, len]`
(the length is recomputed from the input).  Cross-check with the lexer port: when the port emits an error
token the parser must report an error. -/
open Verif.Proto Verif.Model.Front Verif.Model.Front.Lexer

def field (parts : List String) (key : String) : Option Int :=
  match parts.find? (·.startsWith key) with
  | some s => (s.drop key.length).toString.toInt?
  | none => none

def judge (op : List String) (go : String) : Verdict :=
  match op with
  | ["parsecheck", hex] =>
    match parseHex hex with
    | none => .skip "bad-hex"
    | some bytes =>
      let inp : Bytes := bytes.toArray
      let parts := (go.splitOn " ").filter (· ≠ "")
      let p := parts.headD ""
      let c := (parts.drop 1).headD ""
      let tags := [p, c] ++ (if inp.size > 0 then ["!nt"] else [])
      if go == "panic" || p == "p-crash" || c == "c-crash" then .violation "crash" "returns a program or errors" tags
      else if go == "hang" then .violation "hang" "terminates" tags
      else if p == "p-internal" || c == "c-internal" then .violation "internal-error" "syntax/semantic errors only" tags
      else
        let len : Int := inp.size
        match field parts "len=", field parts "errs=", field parts "min=", field parts "max=" with
        | some l, some n, some mn, some mx =>
          if l ≠ len then .modelDiff ("len=" ++ toString len) tags
          else if parts.any (·.startsWith "bad=") ∨ (n > 0 ∧ (mn < 0 ∨ mx > len)) then
            .violation "position-out-of-range" ("positions within [0," ++ toString len ++ "]") tags
          else
            let r := lex inp
            let hasErrTok := r.tokens.any (fun t => t.ty = T.error)
            if hasErrTok && p != "p-err" then .modelDiff "p-err (the port emits an error token)" ("lex-error-token" :: tags)
            else .ok (if hasErrTok then "lex-error-token" :: tags else tags)
        | _, _, _, _ => .modelDiff "unparsable result" tags
  | _ => .skip "foreign-op"

def main : IO Unit := runDriver judge
