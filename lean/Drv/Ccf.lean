import Verif.Util.Proto
import Verif.Model.Codec.CValueSx
import Verif.Model.Codec.Ccf
import Verif.Model.Codec.CcfDecode
import Verif.Util.CodecDrv
/-! Driver for stream `ccf` (C42): ops `enc <mode> <sx>`, `rt <sx>`, `perm <sx> <sx'>`, `strict <mode> <sx>`,
`mutb <hex>`, `hand <sorted|unsorted|dup> <hex>`.  Every Go decoder result is also compared with the port
of the decoder (`Verif.Model.Codec.CcfDecode`, MODELDIFF). -/
open Verif.Proto Verif.Model.Codec Verif.Model.Codec.Ccf Verif.Util.CodecDrv
open Verif.Model.Codec.CcfDecode (DMode)

namespace DrvCcf

def modeOf (s : String) : Mode := if s == "det" then Mode.deterministic else Mode.default

def renderE (r : E (List UInt8)) : String :=
  match r with
  | .ok bs => "ok:" ++ toHex bs
  | .error .err => "err"
  | .error .unexpected => "panic"
  | .error (.ood w) => "ood:" ++ w

/-- the port of the decoder on the bytes: `ok:<sx>`, `err`, or `ood:<why>` (outside the model) -/
def renderD (r : CcfDecode.D CValue) : String :=
  match r with
  | .ok v => "ok:" ++ showValue v
  | .error .err => "err"
  | .error (.ood w) => "ood:" ++ w

def modelDecodeHex (m : DMode) (hex : String) : String :=
  match parseHex hex with
  | some bs => renderD (CcfDecode.decode m bs)
  | none => "ood:bad-hex"

/-- compare a Go decoder result (`ok:<sx>` / `err`) with the port; `none`: they agree or the input is outside the model -/
def decDiff (m : DMode) (hex : String) (go : String) : Option String :=
  let md := modelDecodeHex m hex
  if md.startsWith "ood:" then none else if md == go then none else some ("dec:" ++ md)

def split3 (s : String) : Option (String × String × String) :=
  match s.splitOn ":" with
  | a :: b :: rest => some (a, b, ":".intercalate rest)
  | _ => none

def judgeEnc (mode sx go : String) : Verdict :=
  match parseValue sx with
  | none => .skip "bad-op"
  | some v =>
    let m := renderE (encode (modeOf mode) v)
    if m.startsWith "ood:" then .skip m
    else if go == m then .ok ["!nt", "enc-" ++ mode, kindTag v]
    else .modelDiff m ["enc-" ++ mode, kindTag v]

def judgeRt (sx go : String) : Verdict :=
  match parseValue sx with
  | none => .skip "bad-op"
  | some v =>
    let tags := [kindTag v]
    let m := renderE (encode Mode.default v)
    if m.startsWith "ood:" then .skip m else
    let spec := showValue (canon (collect v) (eraseV v))
    if go == "hang" then .violation "ccf-hang" "value-or-error" tags
    else if go == "panic" then (if m == "panic" then .ok ("enc-unexpected" :: tags) else .violation "ccf-encode-or-decode-panic" "value-or-error" tags)
    else if go == "encerr" then (if m == "err" then .ok ("enc-err" :: tags) else .modelDiff m ("enc-err" :: tags))
    else if go.startsWith "decerr:" then
      let hex := (go.drop 7).toString
      if "ok:" ++ hex != m then .modelDiff m ("enc-diff" :: tags)
      else
        let cls := if hasFunctionValue v then "ccf-function-value-not-decodable" else "ccf-decoder-rejects-own-encoding"
        match decDiff DMode.default hex "err" with
        | some d => .modelDiff d ("go-decerr" :: tags)
        | none => .violation cls ("ok:" ++ spec) ("go-decerr" :: tags)
    else if go.startsWith "ok:" then
      match split3 ((go.drop 3).toString) with
      | none => .skip "bad-result"
      | some (same, hex, sx2) =>
        if "ok:" ++ hex != m then .modelDiff m ("enc-diff" :: tags)
        else if let some d := decDiff DMode.default hex ("ok:" ++ sx2) then .modelDiff d ("dec-diff" :: tags)
        else if sx2 != spec then
          let cls := if nilAmbiguous v v.typeOf then "ccf-optional-nil-ambiguity" else "ccf-roundtrip-not-equal"
          .violation cls ("ok:" ++ spec) tags
        else if same != "same" then .violation "ccf-reencode-differs" "same" tags
        else .ok ("!nt" :: "rt-ok" :: tags)
    else .skip "bad-result"

def judgePerm (sx1 sx2 go : String) : Verdict :=
  match parseValue sx1, parseValue sx2 with
  | some v1, some v2 =>
    let m1 := renderE (encode Mode.deterministic v1)
    let m2 := renderE (encode Mode.deterministic v2)
    if m1.startsWith "ood:" || m2.startsWith "ood:" then .skip "ood"
    else if !(m1.startsWith "ok:") then .skip "not-encodable"
    else if m1 != m2 then
      -- the model says the two values are not permutations of each other (harness fault) or the
      -- model's encoding is order dependent (a broken `canonical` theorem would show here too)
      .modelDiff ("model-encodings-differ " ++ m1 ++ " " ++ m2) ["perm"]
    else if go == "same:" ++ (m1.drop 3).toString then .ok ["!nt", "perm", "perm-same"]
    else if go.startsWith "diff:" then .violation "ccf-deterministic-encoding-depends-on-order" "same" ["perm"]
    else .modelDiff m1 ["perm"]
  | _, _ => .skip "bad-op"

def judgeStrict (mode sx go : String) : Verdict :=
  match parseValue sx with
  | none => .skip "bad-op"
  | some v =>
    let md := renderE (encode Mode.deterministic v)
    let mm := renderE (encode (modeOf mode) v)
    if md.startsWith "ood:" || mm.startsWith "ood:" then .skip "ood"
    else if !(mm.startsWith "ok:") then (if go == "encerr" || go == "panic" then .ok ["strict", "strict-encerr"] else .modelDiff mm ["strict"])
    else if let some d := decDiff DMode.strict (mm.drop 3).toString go then .modelDiff d ["strict", "dec-diff"]
    else if hasFunctionValue v then .skip "function-value"
    else if nilAmbiguous v v.typeOf then .skip "nil-ambiguity"
    else
      if mm == md then
        -- sorted (deterministic) encoding: the strict decoder must accept it, and what it returns is
        -- the value up to the order of fields / set members: it has the same deterministic encoding
        if go.startsWith "ok:" then
          match parseValue (go.drop 3).toString with
          | some v2 =>
            if renderE (encode Mode.deterministic v2) == md then .ok ["!nt", "strict", "strict-accepts-" ++ mode]
            else .violation "ccf-strict-decoder-returns-other-value" md ["strict"]
          | none => .skip "bad-result"
        else .violation "ccf-strict-decoder-rejects-sorted-encoding" "ok" ["strict"]
      else
        -- the default-mode encoding differs from the deterministic one: something is unsorted
        if go == "err" then .ok ["!nt", "strict", "strict-rejects-unsorted"]
        else .violation "ccf-strict-decoder-accepts-unsorted-encoding" "err" ["strict"]

/-- hand-built encodings of dictionaries: `go` = `d:<default decoder>;s:<strict decoder>` -/
def judgeHand (kind hex go : String) : Verdict :=
  match go.splitOn ";s:" with
  | [d, s] =>
    let d := (d.drop 2).toString
    if d == "panic" || s == "panic" || d == "hang" || s == "hang" then .violation "ccf-decode-panic" "value-or-error" ["hand", kind] else
    let tags := ["hand", "hand-" ++ kind]
    -- the spec: dictionary entries out of order are rejected by every decoder mode; entries in
    -- strictly increasing order are accepted.  Equal adjacent keys (`dup`) are in order as far as
    -- `sorted` goes; CCF leaves their rejection to the application ("Decoders are not always
    -- required to check for duplicate dictionary keys"), so the code's answer is compared with the port only.
    if kind == "unsorted" && (d != "err" || s != "err") then
      .violation "ccf-decoder-accepts-unsorted-dictionary" "err" tags
    else if kind == "sorted" && (d == "err" || s == "err") then
      .violation "ccf-decoder-rejects-sorted-dictionary" "ok" tags
    else if let some x := decDiff DMode.default hex d then .modelDiff x tags
    else if let some x := decDiff DMode.strict hex s then .modelDiff x tags
    else .ok ("!nt" :: (if d == "err" then "hand-rejected" else "hand-accepted") :: tags)
  | _ => .skip "bad-result"

def judge (op : List String) (go : String) : Verdict :=
  match op with
  | ["ccf", "enc", mode, sx] => judgeEnc mode sx go
  | ["ccf", "rt", sx] => judgeRt sx go
  | ["ccf", "perm", sx1, sx2] => judgePerm sx1 sx2 go
  | ["ccf", "strict", mode, sx] => judgeStrict mode sx go
  | ["ccf", "mutb", hex] =>
    if go.startsWith "ok:" || go == "err" then
      let md := modelDecodeHex DMode.default hex
      if md.startsWith "ood:" then .ok ["mutb", if go == "err" then "mutb-err" else "mutb-ok", "mutb-outside-model"]
      else if md == go then .ok ["!nt", "mutb", if go == "err" then "mutb-err" else "mutb-ok", "mutb-model-agrees"]
      else .modelDiff ("dec:" ++ md) ["mutb"]
    else .violation "ccf-decode-panic" "value-or-error" ["mutb"]
  | ["ccf", "hand", kind, hex] => judgeHand kind hex go
  | _ => .skip "unknown-op"

end DrvCcf

def main : IO Unit := runDriver DrvCcf.judge
