import Verif.Util.Proto
import Verif.Model.Auth
import Verif.Spec.Auth
/-! Driver for stream `auth` (C06): ops `permits req held`, `equal a b`, `intersect a b`,
    `image mapping input`, `domain mapping`.  Entitlements are strings. -/
open Verif.Proto Verif.Model.Auth Verif.Spec.Auth

abbrev AccS := Access String

def splitNonEmpty (s : String) (sep : String) : List String :=
  if s.isEmpty then [] else s.splitOn sep

def parsePrim : String → Option Prim
  | "notSpecified" => some .notSpecified | "none" => some .none | "self" => some .self
  | "contract" => some .contract | "account" => some .account | "all" => some .all
  | "pubSettableLegacy" => some .pubSettableLegacy | _ => none

def primName : Prim → String
  | .notSpecified => "notSpecified" | .none => "none" | .self => "self" | .contract => "contract"
  | .account => "account" | .all => "all" | .pubSettableLegacy => "pubSettableLegacy"

def parseRel (s : String) : Option (String × String) :=
  match s.splitOn ">" with
  | [i, o] => some (i, o)
  | _ => none

def parseMapping (s : String) : Option (Mapping String) :=
  match s.splitOn ":" with
  | [id, ident, rels] =>
    match id.toNat?, (splitNonEmpty rels ";").mapM parseRel with
    | some n, some rs => some { id := n, relations := rs, includesIdentity := ident == "1" }
    | _, _ => none
  | _ => none

def parseAccess (s : String) : Option AccS :=
  if s.startsWith "p:" then (parsePrim (s.drop 2).toString).map .prim
  else if s.startsWith "c:" then some (mkSet .conj (splitNonEmpty (s.drop 2).toString ","))
  else if s.startsWith "d:" then some (mkSet .disj (splitNonEmpty (s.drop 2).toString ","))
  else if s.startsWith "m:" then (parseMapping (s.drop 2).toString).map .map
  else none

def sortStrings (xs : List String) : List String := (xs.toArray.qsort (· < ·)).toList

def renderAccess : AccS → String
  | .prim p => "p:" ++ primName p
  | .set .conj es => "c:" ++ ",".intercalate (sortStrings es)
  | .set .disj es => "d:" ++ ",".intercalate (sortStrings es)
  | .map m => "m:" ++ toString m.id

def kindTag : AccS → String
  | .prim .all => "unauth" | .prim _ => "prim" | .set .conj [] => "conj0" | .set .disj [] => "disj0"
  | .set .conj _ => "conj" | .set .disj _ => "disj" | .map _ => "map"

def ents : AccS → List String
  | .set _ es => es
  | .map m => m.relations.flatMap (fun r => [r.1, r.2])
  | _ => []

def univ (xs : List String) : List String := xs.eraseDups

def isAuthB (a : AccS) : Bool := decide (IsAuth a)

def boolStr (b : Bool) : String := if b then "true" else "false"

/-- narrow class for the known defect: the image of a disjunction one of whose members has an empty
    image is computed from the other members only -/
def imageClass (m : Mapping String) (a : AccS) : String :=
  match a with
  | .set .disj es =>
    if es.any (fun e => (entitlementImage m e).isEmpty) then "image-disjunction-member-with-empty-image"
    else "image-grants-more"
  | _ => "image-grants-more"

/-- include chain: mapping i includes mapping i-1 (the checker flattens includes into `Relations`
    and ors `IncludesIdentity`); each element is `<ident>:<rels>` -/
def parseChain (s : String) : Option (Mapping String) :=
  (s.splitOn "/").foldlM (fun (acc : Mapping String) part =>
    match part.splitOn ":" with
    | [ident, rels] =>
      match (splitNonEmpty rels ";").mapM parseRel with
      | some rs => some { id := 0, relations := acc.relations ++ rs,
                          includesIdentity := acc.includesIdentity || ident == "1" }
      | none => none
    | _ => none) { id := 0, relations := [], includesIdentity := false }

/-- expected checker verdict for the upcast program (see `authProg` in stream_auth.go) -/
def progModel (a b req : AccS) (m : Mapping String) : String × List String :=
  if !permits b a then ("reject", ["cast-rejected"])
  else match image m b with
    | none => ("reject", ["image-unrepresentable"])
    | some rb => if permits req rb then ("ok", ["member-readable", "via-" ++ kindTag rb])
                 else ("reject", ["member-denied", "via-" ++ kindTag rb])

def judge (op : List String) (go : String) : Verdict :=
  match op with
  | ["auth", "prog", a, b, req, chain, _engine] =>
    match parseAccess a, parseAccess b, parseAccess req, parseChain chain with
    | some a, some b, some req, some m =>
      let (exp, tags) := progModel a b req m
      let tags := ["prog", "!nt", "a-" ++ kindTag a, "b-" ++ kindTag b, "req-" ++ kindTag req] ++ tags
      -- spec: an accepted program must not give the holder of `a` more than its mapped entitlements satisfy
      let u := univ (ents a ++ ents b ++ ents req ++ ents (.map m))
      let justified := (subsets u).all (fun H => !sat a H || sat req (applyMap m H))
      if go == "ok" && !justified then
        .violation "upcast-escalation" "reject (the holder of the original reference does not have the required entitlement on the mapped member)" tags
      else if go != "ok" && go != "reject" then .violation "go-panic-or-internal" "ok or a checker error" tags
      else if go == exp then .ok tags else .modelDiff exp tags
    | _, _, _, _ => .skip "bad-op"
  | ["auth", "permits", a, b] =>
    match parseAccess a, parseAccess b with
    | some req, some held =>
      let m := boolStr (permits req held)
      let tags := ["permits", "req-" ++ kindTag req, "held-" ++ kindTag held, "r-" ++ m]
      let nt := match req, held with | .set _ (_ :: _), .set _ (_ :: _) => true | _, _ => false
      let tags := if nt then "!nt" :: tags else tags
      if isAuthB req && isAuthB held then
        let spec := boolStr (permitsSpec (univ (ents req ++ ents held)) req held)
        if go != spec then .violation "permits-not-set-semantics" spec tags
        else if go == m then .ok ("spec" :: tags) else .modelDiff m tags
      else if go == m then .ok tags else .modelDiff m tags
    | _, _ => .skip "bad-op"
  | ["auth", "equal", a, b] =>
    match parseAccess a, parseAccess b with
    | some x, some y =>
      let m := boolStr (equal x y)
      let tags := ["equal", "a-" ++ kindTag x, "b-" ++ kindTag y, "r-" ++ m]
      let tags := if kindTag x == kindTag y then "!nt" :: tags else tags
      let u := univ (ents x ++ ents y)
      if isAuthB x && isAuthB y && go == "true" && !(permitsSpec u x y && permitsSpec u y x) then
        .violation "equal-not-semantic" "false" tags
      else if go == m then .ok tags else .modelDiff m tags
    | _, _ => .skip "bad-op"
  | ["auth", "intersect", a, b] =>
    match parseAccess a, parseAccess b with
    | some x, some y =>
      let r := intersect x y
      let m := renderAccess r
      let tags := ["intersect", "a-" ++ kindTag x, "b-" ++ kindTag y, "r-" ++ kindTag r]
      let nt := match x, y with | .set _ (_ :: _), .set _ (_ :: _) => true | _, _ => false
      let tags := if nt then "!nt" :: tags else tags
      if isAuthB x && isAuthB y then
        match parseAccess go with
        | some gr =>
          if !(isAuthB gr && intersectSpec (univ (ents x ++ ents y ++ ents gr)) x y gr) then
            .violation "intersect-grants-more" "an access satisfied by every holder of either side" tags
          else if go == m then .ok ("spec" :: tags) else .modelDiff m tags
        | none => .violation "intersect-bad-result" "an access" tags
      else if go == m then .ok tags else .modelDiff m tags
    | _, _ => .skip "bad-op"
  | ["auth", "image", ms, a] =>
    match parseAccess ms, parseAccess a with
    | some (.map mp), some x =>
      let r := image mp x
      let m := match r with | some r => renderAccess r | none => "err"
      let rt := match r with | some r => "r-" ++ kindTag r | none => "r-err"
      let tags := ["image", "in-" ++ kindTag x, rt, if mp.includesIdentity then "identity" else "no-identity"]
      let nt := match x with | .set _ (_ :: _) => !mp.relations.isEmpty || mp.includesIdentity | _ => false
      let tags := if nt then "!nt" :: tags else tags
      if isAuthB x && go != "err" then
        match parseAccess go with
        | some gr =>
          if !(isAuthB gr && imageSpec (univ (ents x ++ ents (.map mp) ++ ents gr)) mp x gr) then
            .violation (imageClass mp x) "an access satisfied by the mapped entitlements of every holder of the input" tags
          else if go == m then .ok ("spec" :: tags) else .modelDiff m tags
        | none => .violation "image-bad-result" "an access or the unrepresentable-output error" tags
      else if go == m then .ok tags else .modelDiff m tags
    | _, _ => .skip "bad-op"
  | ["auth", "domain", ms] =>
    match parseAccess ms with
    | some (.map mp) =>
      let m := renderAccess (domain mp)
      let tags := ["domain"] ++ (if mp.relations.isEmpty then [] else ["!nt"])
      if go == m then .ok tags else .modelDiff m tags
    | _ => .skip "bad-op"
  | _ => .skip "unknown-op"

def main : IO Unit := runDriver judge
