import Verif.Util.Proto
import Verif.Model.Lin.Reader
import Verif.Model.Lin.Linearity
import Verif.Spec.Paths
/-!
Driver for stream `lin` (property C03).
op: `lin <label> <mutations> <source>`; Go result: `<sx> @@ <errors>` (see stream_lin.go).

* MODELDIFF: the multiset of error kinds of the real checker differs from `linCheck` on the same
  parsed function.
* VIOLATION (judged by the path semantics, independently of the port):
  - the real checker accepts, but some path (loops unrolled ≤ 2) is not linear;
  - the real checker reports a loss / use-after-invalidation error although every path (loops
    unrolled ≤ 2; complete by `paths_unroll2_complete`) is linear and no statement is unreachable.
-/
open Verif.Proto Verif.Model.Lin Verif.Spec.Paths

def errName : Err → String
  | .loss => "ResourceLossError"
  | .useAfter => "ResourceUseAfterInvalidationError"
  | .missingMove => "MissingMoveOperationError"
  | .unreachable => "UnreachableStatementError"
  | .control => "ControlStatementError"
  | .notDeclared => "NotDeclaredError"

def allErrs : List Err := [.control, .missingMove, .notDeclared, .loss, .useAfter, .unreachable]

/-- render a multiset of errors the way the harness does: `Kind*count;…` sorted by kind name -/
def renderErrs (es : List Err) : String :=
  let parts := allErrs.filterMap fun k =>
    let n := es.count k
    if n == 0 then none else some (errName k ++ "*" ++ toString n)
  if parts.isEmpty then "ok" else ";".intercalate parts

def knownKinds : List String := allErrs.map errName

def kindsOf (go : String) : List String :=
  if go == "ok" then [] else (go.splitOn ";").map fun p => (p.splitOn "*").headD ""

def judge (op : List String) (go : String) : Verdict :=
  match op with
  | ["lin", _label, muts, _src] =>
    match go.splitOn " @@ " with
    | [sx, goErrs] =>
      if sx.startsWith "oof:" then .skip ("out-of-fragment") else
      match parseFn sx with
      | none => .skip "unreadable-sx"
      | some f =>
        if !f.uniqueNames then .skip "names-not-unique" else
        let kinds := kindsOf goErrs
        if goErrs == "parse-error" || kinds.any (fun k => !knownKinds.contains k) then .skip "other-errors" else
        let model := renderErrs (linCheck f)
        let b := f.body
        let feats := (if b.hasLoop then ["loop"] else []) ++ (if b.hasHalt then ["halt"] else []) ++
          (if b.hasJump then ["jump"] else []) ++ (if b.hasIflet then ["iflet"] else []) ++
          (if b.hasBranch then ["branch"] else ["straight"])
        let tags := ["m:" ++ muts.replace "," "+"] ++ feats ++ kinds.map (fun k => "e:" ++ k) ++
          (if goErrs == "ok" then ["accepted"] else ["rejected"])
        let nt := if b.hasBranch || goErrs != "ok" then ["!nt"] else []
        let small := countN 2 b ≤ 30000
        let bad := if small then firstBad 2 f else none
        let tags := tags ++ (if small then [if bad.isSome then "judge:nonlinear" else "judge:linear"] else ["judge:skipped"])
        if small && goErrs == "ok" && bad.isSome then
          let cls := if b.hasLoop && b.hasHalt then "accepts-nonlinear-loop-then-halt"
            else if b.hasLoop && b.hasJumpRetBranch then "accepts-nonlinear-jump-in-returning-branch"
            else "accepts-nonlinear"
          .violation cls "rejected(some-path-not-linear)" (nt ++ tags)
        else if small && bad.isNone && !kinds.contains "UnreachableStatementError" &&
            (kinds.contains "ResourceLossError" || kinds.contains "ResourceUseAfterInvalidationError") then
          let cls := if b.hasHalt || b.hasJump then "rejects-linear-invalidation-before-jump-or-halt"
            else if b.hasNestedReturns then "rejects-linear-nested-returns" else "rejects-linear"
          .violation cls "accepted(all-paths-linear)" (nt ++ tags)
        else if goErrs == model then .ok (nt ++ tags)
        else .modelDiff model (nt ++ tags)
    | _ => .skip "bad-result"
  | _ => .skip "unknown-op"

def main : IO Unit := runDriver judge
