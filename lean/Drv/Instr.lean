import Verif.Util.Proto
import Verif.Model.Codec.Instr
/-!
Driver for stream `instr` (property C35, instruction codec).  An instruction is rendered
`<opcode> kind=value …` with kinds `u16 bool u16s pd ck up` (taken by the harness from the Go field
types of the real instruction structs).
* `instr rt <instruction> <prefixLen> <trailHex>` — Go: `<encHex>:<decoded instruction>:<ip>` | `<encHex>:panic` | `encode-panic`
* `instr seq <i1>|<i2>|…`                        — Go: `<codeHex>:<d1>|<d2>|…` | `<codeHex>:panic` | `encode-panic`
* `instr dec <hex> <ip>`                         — Go: `<decoded instruction>:<ip>` | `panic`
-/
open Verif.Proto Verif.Model.Instr
namespace Drv.Instr

def table : List InstrSpec := Verif.Gen.Instr.specs

def parseNatList (s : String) : Option (List Nat) :=
  if s.isEmpty then some [] else (s.splitOn ",").mapM String.toNat?

def parseOperand (s : String) : Option Operand :=
  match s.splitOn "=" with
  | [k, v] =>
    match k with
    | "u16" => v.toNat?.map .u16
    | "bool" => if v == "1" then some (.bool true) else if v == "0" then some (.bool false) else none
    | "u16s" => (parseNatList v).map .u16s
    | "pd" => v.toNat?.map .pathDomain
    | "ck" => v.toNat?.map .compositeKind
    | "up" =>
      if v.isEmpty then some (.upvalues []) else
      ((v.splitOn ",").mapM fun (p : String) =>
        match p.splitOn "/" with
        | [t, l] => (String.toNat? t).bind fun (t : Nat) =>
            if l == "1" then some (t, true) else if l == "0" then some (t, false) else none
        | _ => none).map .upvalues
    | _ => none
  | _ => none

def parseInstr (s : String) : Option Instr :=
  match s.splitOn " " with
  | [] => none
  | op :: rest => do
    let o ← op.toNat?
    let os ← rest.mapM parseOperand
    pure ⟨o, os⟩

def renderOperand : Operand → String
  | .bool b => "bool=" ++ (if b then "1" else "0")
  | .u16 v => "u16=" ++ toString v
  | .u16s vs => "u16s=" ++ ",".intercalate (vs.map toString)
  | .pathDomain v => "pd=" ++ toString v
  | .compositeKind v => "ck=" ++ toString v
  | .upvalues us => "up=" ++ ",".intercalate (us.map fun (t, l) => toString t ++ "/" ++ (if l then "1" else "0"))

def renderInstr (i : Instr) : String :=
  " ".intercalate (toString i.opcode :: i.operands.map renderOperand)

def encodeInstr (i : Instr) : Option Bytes :=
  match table.find? (fun s => s.opcode == i.opcode) with
  | none => none
  | some spec => encode spec i.operands

def opTags (i : Instr) : List String :=
  let name := match table.find? (fun s => s.opcode == i.opcode) with | some s => s.name | none => "no-spec"
  ("op-" ++ name) :: (i.operands.map fun o => match o with
    | .bool _ => "k-bool" | .u16 _ => "k-u16" | .u16s _ => "k-u16s" | .pathDomain _ => "k-pd"
    | .compositeKind _ => "k-ck" | .upvalues _ => "k-up").eraseDups

def judge (op : List String) (go : String) : Verdict :=
  match op with
  | ["instr", "rt", istr, preS, trailHex] =>
    match parseInstr istr, preS.toNat?, parseHex trailHex with
    | some i, some pre, some trail =>
      let tags := opTags i
      let tags := if i.operands.isEmpty then tags else "!nt" :: tags
      match encodeInstr i with
      | none =>
        -- the model says the encoder panics (array too large) or the operand kinds do not fit the table
        if go == "encode-panic" then .ok ("enc-panic" :: tags) else .modelDiff "encode-panic" tags
      | some enc =>
        let code := List.replicate pre (0xaa : UInt8) ++ enc ++ trail
        let dec := match decodeInstruction table code (pre % 65536) with   -- the harness starts at uint16(prefixLen)
          | .ok (d, ip) => renderInstr d ++ ":" ++ toString ip
          | .goPanic => "panic"
          | .diverge => "hang"
        let m := toHex enc ++ ":" ++ dec
        let inRange := i.operands.all Operand.inRange && decide (pre + enc.length < 65536)
        let tags := (if inRange then "in-range" else "out-of-range") :: tags
        -- the property is the oracle: within the representable ranges the instruction comes back,
        -- and the instruction pointer advances by exactly the encoded length
        match go.splitOn ":" with
        | [gHex, gDec, gIp] =>
          match parseHex gHex with
          | some gEnc =>
            if inRange && (gDec != istr || gIp != toString (pre + gEnc.length)) then
              .violation "instr-roundtrip" (istr ++ ":" ++ toString (pre + gEnc.length)) tags
            else if go == m then .ok tags else .modelDiff m tags
          | none => .modelDiff m tags
        | _ =>
          if inRange then .violation "instr-roundtrip" (istr ++ ":" ++ toString (pre + enc.length)) tags
          else if go == m then .ok tags else .modelDiff m tags
    | _, _, _ => .skip "bad-op"
  | ["instr", "seq", s] =>
    match (s.splitOn "|").mapM parseInstr with
    | some is =>
      let tags := ["seq", "!nt", "seqlen" ++ toString (min is.length 20 / 5 * 5)]
      match encodeAll table is with
      | none => if go == "encode-panic" then .ok ("enc-panic" :: tags) else .modelDiff "encode-panic" tags
      | some code =>
        let dec := match decodeInstructions table code (code.length + 1) with
          | .ok ds => "|".intercalate (ds.map renderInstr)
          | .goPanic => "panic"
          | .diverge => "hang"
        let m := toHex code ++ ":" ++ dec
        let inRange := is.all (fun i => i.operands.all Operand.inRange) && decide (code.length < 65536)
        match go.splitOn ":" with
        | [_, gDec] =>
          if inRange && gDec != s then .violation "instr-seq-roundtrip" s tags
          else if go == m then .ok tags else .modelDiff m tags
        | _ => if inRange then .violation "instr-seq-roundtrip" s tags else .modelDiff m tags
    | none => .skip "bad-op"
  | ["instr", "dec", hex, ipS] =>
    match parseHex hex, ipS.toNat? with
    | some code, some ip =>
      let m := match decodeInstruction table code (ip % 65536) with
        | .ok (d, ip) => renderInstr d ++ ":" ++ toString ip
        | .goPanic => "panic"
        | .diverge => "hang"
      let tags := ["dec", if m == "panic" then "dec-panic" else "dec-ok"]
      let tags := if code.length ≥ 2 then "!nt" :: tags else tags
      if go == m then .ok tags else .modelDiff m tags
    | _, _ => .skip "bad-op"
  | _ => .skip "unknown-op"

end Drv.Instr

def main : IO Unit := Verif.Proto.runDriver Drv.Instr.judge
