import Std.Data.HashMap
import Verif.Util.Proto
import Verif.Model.Num.Basic
import Verif.Gen.NumGo
import Verif.Spec.Arith
/-!
Driver for stream `num`.

  num <Type> <Method> <a> <b|-|*> [engine]  =>  ok:<n> | err:<kind> | panic      (or a comma list for `*`)

For every line: the real Go method's answer is judged (1) against the **spec** (`Verif.Spec.Arith`:
`specChecked` / `specNeg` / `specWord`; independent of the generated model) — a disagreement is a
VIOLATION — and (2) against the **generated model** (`Verif.Gen.NumGo`, looked up by name in the
generated dispatch table) — a disagreement there, with the spec satisfied, is a MODELDIFF
("translator or model fault").  Methods without a spec here (saturating, bitwise, shifts: other
properties) are compared with the model only.
-/
open Verif.Proto Verif.Model.Num Verif.Spec.Arith

def renderRes : Except NumErr Int → String
  | .ok n => "ok:" ++ toString n
  | .error e => if e == .goPanic then "panic" else if e == .nilValue then "nil" else "err:" ++ e.name

def parseTy (s : String) : Option Ty :=
  match s with
  | "Int" => some .bigInt
  | "UInt" => some .bigUInt
  | _ =>
    if s.startsWith "Int" then (s.drop 3).toNat?.map .int
    else if s.startsWith "UInt" then (s.drop 4).toNat?.map .uint
    else if s.startsWith "Word" then (s.drop 4).toNat?.map .word
    else none

def opOf : String → Option Op
  | "Plus" => some .add | "Minus" => some .sub | "Mul" => some .mul | "Div" => some .div | "Mod" => some .mod
  | _ => none

/-- what the property requires of `T.method a b`, when this driver has a spec for it -/
def specOf (T : Ty) (method : String) (a b : Int) : Option (Except NumErr Int) :=
  match T, method, opOf method with
  | .word n, _, some op => some (specWord n op a b)
  | .word _, _, none => none
  | .int _, "Negate", _ => some (specNeg T a)
  | .bigInt, "Negate", _ => some (specNeg T a)
  | _, _, some op => some (specChecked T op a b)
  | _, _, none => none

def binMap : Std.HashMap String (Int → Int → Except NumErr Int) := Std.HashMap.ofList Verif.Gen.NumGo.binTable
def unMap : Std.HashMap String (Int → Except NumErr Int) := Std.HashMap.ofList Verif.Gen.NumGo.unTable

def modelOf (tyName method : String) (a b : Int) (unary : Bool) : Option (Except NumErr Int) :=
  let key := tyName ++ "Value." ++ method
  if unary then (unMap.get? key).map (· a) else (binMap.get? key).map (fun f => f a b)

def famTag : Ty → String
  | .int _ => "signed" | .uint _ => "unsigned" | .word _ => "word" | .bigInt => "Int" | .bigUInt => "UInt"

def resTag : Except NumErr Int → String
  | .ok _ => "r-ok" | .error e => "r-" ++ e.name

inductive J where
  | ok (tags : List String)
  | diff (model : String) (tags : List String)
  | viol (cls spec : String) (tags : List String)
  | skip (why : String)

/-- judge one (a, b) -/
def judge1 (tyName method : String) (T : Ty) (a b : Int) (unary : Bool) (go : String) : J :=
  if ¬ (inRange T a ∧ (unary ∨ inRange T b)) then .skip "operand-out-of-range" else
  let spec := specOf T method a b
  let model := modelOf tyName method a b unary
  let wraps : Bool := match T, opOf method with
    | .word n, some op => decide (exact op a b ≠ exact op a b % (2 : Int) ^ n)
    | _, _ => false
  let base := [famTag T, "m-" ++ method]
  match spec with
  | some s =>
    let tags := resTag s :: base
    let tags := if wraps then "wrapped" :: tags else tags
    let nt := (match s with | .error _ => true | .ok _ => wraps || (a.natAbs > 1 && (unary || b.natAbs > 1)))
    let tags := if nt then "!nt" :: tags else tags
    if go != renderRes s then
      let cls := if go == "panic" || go == "hang" || go == "nil" || go.startsWith "err-" then "go-panic-or-internal"
                 else if go.startsWith "ok:" then (match s with | .ok _ => "wrong-value" | .error _ => "missing-error")
                 else (match s with | .ok _ => "spurious-error" | .error _ => "wrong-error-kind")
      .viol cls (renderRes s) tags
    else match model with
      | none => .ok ("untranslated" :: tags)
      | some m => if go == renderRes m then .ok tags else .diff (renderRes m) tags
  | none =>
    match model with
    | none => .skip "no-spec-no-model"
    | some m =>
      let tags := "nospec" :: resTag m :: base
      if go == renderRes m then .ok ("!nt" :: tags) else .diff (renderRes m) tags

def rangeOf8 : Ty → Option (Int × Int)
  | .int 8 => some (-128, 127)
  | .uint 8 => some (0, 255)
  | .word 8 => some (0, 255)
  | _ => none

def judge (op : List String) (go : String) : Verdict :=
  match op with
  | "num" :: tyName :: method :: sa :: sb :: rest =>
    match parseTy tyName, sa.toInt? with
    | some T, some a =>
      let via := match rest with | e :: _ => ["via-script-" ++ e] | [] => []
      if sb == "*" then
        match rangeOf8 T with
        | none => .skip "row-on-wide-type"
        | some (lo, hi) =>
          let gos := go.splitOn ","
          let n := (hi - lo + 1).toNat
          if gos.length != n then .modelDiff ("row of " ++ toString gos.length ++ " results, expected " ++ toString n) ["row"]
          else
            -- fold over the row; the first violation / difference decides, tags are the union
            let step := fun (acc : (Option Verdict) × List String × Int) (g : String) =>
              let (bad, tags, b) := acc
              match bad with
              | some (.violation ..) => (bad, tags, b + 1)
              | _ =>
                match judge1 tyName method T a b false g with
                | .ok ts => (bad, ts.foldl (fun t x => if t.contains x then t else x :: t) tags, b + 1)
                | .skip _ => (bad, tags, b + 1)
                | .diff m ts =>
                  (match bad with
                   | some _ => bad
                   | none => some (.modelDiff ("b=" ++ toString b ++ " go=" ++ g ++ " model=" ++ m) ts), tags, b + 1)
                | .viol c s ts => (some (.violation c ("b=" ++ toString b ++ " go=" ++ g ++ " spec=" ++ s) ts), tags, b + 1)
            let (bad, tags, _) := gos.foldl step (none, [], lo)
            match bad with
            | some v => v
            | none => .ok ("row" :: tags)
      else
        let unary := sb == "-"
        match (if unary then some 0 else sb.toInt?) with
        | none => .skip "bad-op"
        | some b =>
          match judge1 tyName method T a b unary go with
          | .ok ts => .ok (via ++ ts)
          | .diff m ts => .modelDiff m (via ++ ts)
          | .viol c s ts => .violation c s (via ++ ts)
          | .skip w => .skip w
    | _, _ => .skip "bad-op"
  | _ => .skip "unknown-op"

def main : IO Unit := runDriver judge
