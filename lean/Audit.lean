/-
Axiom audit: for every module given on the command line, list every theorem declared in that module
with the axioms it depends on.  Run as `lake env lean --run Audit.lean Verif.Properties.C46 ...`.
Output: one line `THEOREM <name> <axiom> <axiom> ...` per theorem; `MODULE <name> <count>` per module.
-/
import Lean
open Lean

def isInternalName (n : Name) : Bool :=
  n.isInternal || n.components.any fun c =>
    let s := c.toString
    s.startsWith "_" || s.startsWith "match_" || s.startsWith "proof_" || s.startsWith "eq_def" ||
    (s.startsWith "eq_" && (s.drop 3).all Char.isDigit) || s.startsWith "induct" || s.startsWith "fun_cases" ||
    s.startsWith "congr_simp" || s.startsWith "sizeOf_spec" || s.startsWith "injEq" || s.startsWith "noConfusion"

unsafe def run (args : List String) : IO UInt32 := do
  initSearchPath (← findSysroot)
  let mods := args.map String.toName
  enableInitializersExecution
  let env ← importModules (mods.toArray.map fun m => { module := m }) {} (loadExts := true)
  let ctx : Core.Context := { fileName := "<audit>", fileMap := default }
  for m in mods do
    match env.getModuleIdx? m with
    | none => IO.eprintln s!"module not found: {m}"; return 1
    | some idx =>
      let names := env.header.moduleData[idx.toNat]!.constNames
      let mut count := 0
      for n in names do
        if isInternalName n then continue
        match env.find? n with
        | some (.thmInfo _) =>
          let (axsArr, _) ← (collectAxioms n : CoreM (Array Name)).toIO ctx { env := env }
          let axs := axsArr.toList.map toString
          IO.println s!"THEOREM {n} {" ".intercalate axs}"
          count := count + 1
        | _ => pure ()
      IO.println s!"MODULE {m} {count}"
  return 0

unsafe def main (args : List String) : IO UInt32 := run args
