PROP = {
    "id": "C39",
    "theorem_modules": ["Verif.Properties.C39"],
    "min_theorems": 6,
    "required_theorems": [
        "Verif.Properties.C39.layout_token_invariant",
        "Verif.Properties.C39.flatten_token_invariant",
        "Verif.Properties.C39.postpass_tokens",
        "Verif.Properties.C39.collapse_comment_witness",
        "Verif.Properties.C39.postpass_comments_partial",
        "Verif.Properties.C39.comments_once_partial",
    ],
    "harness_files": ["c38_gen.go", "stream_pp.go"],
    "streams": [
        {"name": "fmt", "driver": "drv_fmt",
         "quick": {"n": 2500}, "thorough": {"n": 30000, "seeds": 4}},
        {"name": "cattach", "driver": "drv_cattach",
         "quick": {"n": 1500}, "thorough": {"n": 20000, "seeds": 4}},
    ],
    "exhaustive": False,
    "technique": "Lean 4 proof over a model of the layout engine (turbolent/prettier) and ports of two byte-level "
                 "post-passes + correspondence stream with a Go-only oracle (same AST, every comment once verbatim, fixed point)",
    "level_text": "PARTIAL. Theorems: layout_token_invariant - for every document, width and indent string the rendering of the "
                  "modelled layout engine has the same non-white-space character sequence as the document's text pieces "
                  "(break decisions never change tokens); postpass_tokens - stripTrailingLineWhitespace and collapseBlankLines "
                  "(as functions on lines) only delete or empty white-space-only lines; postpass_comments_partial - text without "
                  "white-space-only lines passes unchanged; collapse_comment_witness - the recorded defect on the port; "
                  "comments_once_partial - on a model of trivia.Attach / attachLevel (the four loops, recursion into children, "
                  "header / footer rules; tied by CC stream `cattach`: model assignments = CommentMap of the real attachLevel "
                  "through a verif hook, and every group in exactly one slot of Go's map) the slot assignments carry every "
                  "comment group exactly once, in order, for all element forests and group lists. NOT modelled: comment scanning, the "
                  "hoist post-passes of Attach, the Go maps' overwrite semantics, rendering of the slots, "
                  "rejoinStringInterpolations, import rewriting, idempotence - these are covered by the CC stream only. CC stream `fmt`: generated programs with "
                  "comments inserted at white-space positions (line, doc, block, inline block comments), extra blank lines, "
                  "semicolons, random option combinations: formatter.Format must return an error or an output that parses to "
                  "the same AST modulo positions (imports as a multiset when sorted), contains every input comment exactly "
                  "once verbatim and is a fixed point of Format (direct oracle, Go alone); the two ported post-passes are "
                  "compared byte for byte with the Go functions (verif hook) on generated inputs.",
    "level_note": "Trusted: Lean kernel; the model of turbolent/prettier (Flatten, fits, best, layout; strict instead of lazy, "
                  "text width in characters instead of bytes) - modelled, not tied by a stream of its own (it is exercised only "
                  "through Format); the model Verif.Model.Front.Attach of trivia.attachLevel (validated by stream cattach); the ports of the two post-passes (validated by stream fmt); harness and driver. bytes.TrimSpace "
                  "is modelled for ASCII white space only. Idempotence is CC only.",
    "assumptions": ["indent string consists of white space (Options.Validate enforces \" \" or \"\\t\")",
                    "bytes.TrimSpace restricted to ASCII white space (generated inputs are ASCII there)"],
    "trusted_base": ["model Verif.Model.Front.Layout of github.com/turbolent/prettier (external library, modelled)",
                     "ports Verif.Model.Front.Trivia validated by stream fmt (verif hook formatter/verif_hooks.go)",
                     "model Verif.Model.Front.Attach validated by stream cattach (verif hook formatter/trivia/verif_hooks.go)",
                     "Go harness cmd/vharness/stream_fmt.go, stream_cattach.go, c38_gen.go, stream_pp.go (AST JSON comparison)",
                     "drivers Drv/Fmt.lean, Drv/Attach.lean"],
}
