PROP = {
    "id": "C03",
    "theorem_modules": ["Verif.Properties.C03"],
    "min_theorems": 1,
    "required_theorems": [
        "Verif.Properties.C03.unsound_witness_loop_then_halt",
    ],
    "streams": [
        {"name": "lin", "driver": "drv_lin",
         "quick": {"n": 3000}, "thorough": {"n": 60000, "seeds": 4}},
    ],
    "exhaustive": False,
    "technique": "Lean 4 proof over a port of the checker's resource tracking + independent path semantics + correspondence stream",
    "level_text": "wip",
    "level_note": "wip",
    "assumptions": [],
    "trusted_base": [],
}
