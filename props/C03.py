PROP = {
    "id": "C03",
    "theorem_modules": ["Verif.Properties.C03"],
    "min_theorems": 15,
    "required_theorems": [
        "Verif.Properties.C03.sound_branching_partial",
        "Verif.Properties.C03.sound_straightline_partial",
        "Verif.Properties.C03.sound_loops_clean_partial",
        "Verif.Properties.C03.sound_loops_partial",
        "Verif.Properties.C03.unsound_witness_break_in_returning_branch",
        "Verif.Properties.C03.merge_pointwise",
        "Verif.Properties.C03.errors_accumulate",
        "Verif.Properties.C03.judge_paths_are_paths",
        "Verif.Properties.C03.judge_nonlinear_exact",
        "Verif.Properties.C03.judge_exact_loopfree_partial",
        "Verif.Properties.C03.unsound_witness_loop_then_halt",
        "Verif.Properties.C03.incomplete_witness_break",
        "Verif.Properties.C03.incomplete_witness_halt",
        "Verif.Properties.C03.incomplete_witness_nested_return",
        "Verif.Properties.C03.incomplete_witness_jump_before_invalidation",
    ],
    "streams": [
        {"name": "lin", "driver": "drv_lin",
         "quick": {"n": 4000}, "thorough": {"n": 60000, "seeds": 4}},
    ],
    "exhaustive": False,
    "technique": "Lean 4 proof over a line-by-line port of the checker's resource tracking, judged by an independent "
                 "path semantics; correspondence stream on generated functions with injected violations",
    "level_text": "Model: port of sema's resource tracking (Resources / ResourceInfo clones, mergeResourceInfos with "
                  "return/halt levels, ReturnInfo merges, loop jump offsets, checkResourceLoss with the "
                  "DefinitelyExited && !MaybeJumped skip, unreachable statements, optional binding, swap) over a "
                  "statement language read from the real parser's AST. Judge: non-deterministic path semantics "
                  "(events create/use/move/destroy/scopeEnd, Linear). Proved, for all functions of the stated shape: "
                  "soundness of the port w.r.t. the path semantics for loop-free functions with if/else and optional "
                  "binding (sound_branching_partial; straight-line corollary sound_straightline_partial), and for "
                  "functions with loops but without break/continue under the decidable syntactic hypothesis "
                  "noHaltAfterInvalidatingLoop (sound_loops_partial, via the semantic hypothesis loopsClean in "
                  "sound_loops_clean_partial); the pointwise characterisation of Resources.MergeBranches "
                  "(merge_pointwise), error accumulation, exactness of the judge's not-linear verdict for all functions "
                  "and unroll bounds (judge_paths_are_paths, judge_nonlinear_exact), exactness of the judge in both directions for loop-free functions (judge_exact_loopfree_partial). The full-strength statements are "
                  "false of the code: two soundness counterexamples (loop invalidation followed by a halt; a break in a "
                  "branch that otherwise returns, found by the proof) and four completeness counterexamples are proved "
                  "about the port and replayed on the Go checker (known findings). "
                  "Tie: stream `lin` compares the multiset of error kinds of the real checker with the port on every "
                  "generated function (0 differences) and judges acceptance against the path semantics (loops unrolled <= 2).",
    "level_note": "proof (code-shaped model, partial) + CC. Soundness is proved for loop-free functions and for loops "
                  "without break/continue (under noHaltAfterInvalidatingLoop); break/continue inside loops are covered by "
                  "the stream's path judge only (and the statement is false there: accepts-nonlinear-jump-in-returning-branch). "
                  "Completeness is not proved (three known incompleteness classes). "
                  "paths_unroll2_complete is not proved (the judge's completeness verdicts rely on unrolling <= 2).",
    "assumptions": ["variable names unique per function (generated programs; checked by the driver)",
                    "the judge enumerates paths with every loop unrolled at most twice"],
    "trusted_base": ["hand-written port Verif.Model.Lin.Linearity validated by stream lin",
                     "bridge harness/internal/linsx (AST -> S-expression)", "driver Drv/Lin.lean"],
}
