PROP = {
    "id": "C04",
    "theorem_modules": ["Verif.Properties.C04"],
    "min_theorems": 7,
    "required_theorems": [
        "Verif.Properties.C04.invalidated",
        "Verif.Properties.C04.derived_invalidated",
        "Verif.Properties.C04.invalidated_dead",
        "Verif.Properties.C04.stable",
        "Verif.Properties.C04.stable_copy",
        "Verif.Properties.C04.storage_ref",
        "Verif.Properties.C04.nested_struct_reference_witness",
    ],
    "streams": [
        {"name": "refinv", "driver": "drv_lang2",
         "quick": {"n": 600}, "thorough": {"n": 8000, "seeds": 4}},
    ],
    "harness_files": ["stream_lang2.go"],
    "exhaustive": False,
    "technique": "Lean 4 proof over the object heap of the muCadence L2 evaluator (references record the generation of "
                 "the referenced cell; every move / destroy bumps the generations of the moved resource and of every "
                 "resource nested in it) + correspondence stream on the real parser's AST in both engines + "
                 "model-independent specification computed by the generator",
    "level_text": "Lean theorems for every state, value and generation: after the transfer (any move) of a resource, every reference taken before to its cell or to a resource-kinded cell nested in it through resource-kinded cells fails on its next use with invalidated-reference (invalidated); a reference read back through another reference from a field / element / entry (a derived reference value) keeps the generation the stored reference recorded, whenever it is derived, and fails likewise (derived_invalidated); a reference to a dead (destroyed) cell fails (invalidated_dead); the move leaves the validity of every reference to a cell outside the moved value exactly as it was, and a deep copy of a non-resource value invalidates nothing (stable, stable_copy); a storage reference yields the value currently at its path iff that value has the borrow type, else the dereference error (storage_ref). Tied to /repo by the stream `refinv`: resource trees nested through an optional field, an array and a dictionary (depth <= 3); references to the root and to nested members taken directly (&x, &x.inner, &x.items[k], &x.m[k], two levels deep) and through other references, laundered through functions so that the checker cannot track them; then moves of the root (declaration, call + return, swap, save + load), children taken out by method calls (also through a reference to the child), swapped, pushed back, kept or destroyed, destroy of the root, non-moving mutations; then one use of every reference the specification says is valid (logging the referent's tag) and one use of a stale one; storage references over unchanged / replaced / emptied / re-typed paths; references kept in struct fields, arrays, dictionaries, optional fields, nested structs and a resource's field and read back through a reference to the holder (member / index access, a function, a for loop; also derived only after the move) to resources nested one or two levels inside a resource that is then moved on the stack (variable, call, array, field), re-stored or destroyed, or whose middle / leaf resource is taken out; resources with attachments (one or two, on a nested resource, an attachment owning a resource; base in a variable, a field, an array) with references to the attachments (`x[A]!`, through a reference to the base, `self` / `base` handed out by an attachment method, forEachAttachment), to the base and to the resource an attachment owns, then the same moves, attaching a further attachment, removing the attachment, non-moving writes that the valid references must observe (oracle only: attachments are outside the model); interpreter and VM; the model evaluator must produce the same observation. Direct oracle independent of the model: the generator's ownership simulation says which uses succeed with which tag and whether the last fails with invalidated-reference (classes stale-reference-usable, valid-reference-unusable).",
    "level_note": 'proof (fragment L2 heap) + CC, partial: `invalidated` is stated for one transfer; that every move form of the evaluator performs `transfer` on the moved value is by construction of the evaluator and validated by the stream, not a separate theorem; invalidation by `destroy` is proved for the dead cell (invalidated_dead), the marking of nested cells by destroyVal is validated by the stream only. References to non-resource values nested in a moved resource are not invalidated by the Go code (InvalidateReferencedResources skips them): genuine violation of the property, recorded as known finding nested-non-resource-reference-not-invalidated (generator form ref-nested-struct, witness theorem nested_struct_reference_witness). Attachments and `for` loops over references are outside the fragment of the model: those programs are judged by the specification computed by the generator and engines-agree only (tag oracle-only). References obtained through capabilities are not generated. Observed, not a violation of this property: a resource that holds an invalidated reference in a field can itself be neither moved nor destroyed (the walk over its fields fails with the invalidated-reference error).',
    "assumptions": ["model: programs of the fragment (DESIGN 4.1 L0-L2; no attachments, capabilities, interfaces); attachment programs are compared with the generator's specification only",
                    "the traversal fuel of the model (heap size + 16) covers the nesting of the moved value"],
    "trusted_base": ["hand-written evaluator Verif.Model.Lang2.Eval validated by stream refinv",
                     "bridge harness/internal/sx2 (AST + elaboration -> S-expression)", "driver Drv/Lang2.lean",
                     "the generator's ownership simulation (the spec oracle of stream refinv)"],
}
