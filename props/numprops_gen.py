#!/usr/bin/env python3
"""One-off generator of lean/Verif/Properties/C11.lean and C12.lean (static, committed files; this
script is not run by ./check).  The theorems are uniform: one per (type, operation), all closed by the
same tactic script, so the files are produced from a table instead of being typed 120 times.
Usage: python3 props/numprops_gen.py [names of theorems to leave out ...]"""
import os, sys
ROOT = os.path.dirname(os.path.dirname(os.path.abspath(__file__)))
skip = set(sys.argv[1:])
OPS = [("Plus", "add"), ("Minus", "sub"), ("Mul", "mul"), ("Div", "div"), ("Mod", "mod")]

def tac(o, hi, lo):
    """tactic closing the goal after `unfold <generated definition>`"""
    if o == "div":
        return "num_div a b"
    if o == "mod":
        return "num_mod a b"
    if o == "mul":
        return f"num_mul a b ({hi}) ({lo})"
    return "num_arith"

def bounds(fam, w):
    if fam == "int":
        return 2 ** (w - 1) - 1, -2 ** (w - 1)
    return 2 ** w - 1, 0

def ty(fam, w):
    return f"(.{fam} {w})"

def c11():
    types = [(f"Int{w}", ty("int", w), True, bounds("int", w)) for w in (8, 16, 32, 64, 128, 256)] + \
            [(f"UInt{w}", ty("uint", w), False, bounds("uint", w)) for w in (8, 16, 32, 64, 128, 256)] + \
            [("Int", ".bigInt", True, (0, 0)), ("UInt", ".bigUInt", False, (0, 0))]
    out = ["""/-
C11 — Sized integer arithmetic is exact or fails.

For every checked integer type T (Int8..Int256, UInt8..UInt256, Int, UInt) and every operation
(+ - * / %, unary minus on the signed types) the *generated* definition `Verif.Gen.NumGo.<T>Value.<Op>`
(regenerated from interpreter/value_*.go on every run) equals the exact-or-error specification
`Verif.Spec.Arith.specChecked` / `specNeg` on all operands of the type: the exact mathematical result
when representable (truncated division, remainder with the dividend's sign), otherwise overflow /
underflow, division by zero for a zero divisor — never a wrapped value, never a Go run-time panic.
Only statements and their final proofs live here; tactics and lemmas are in Verif.Proofs.Arith*.
-/
import Verif.Proofs.ArithMul
namespace Verif.Properties.C11
open Verif.Model.Num Verif.Spec.Arith Verif.Gen.NumGo Verif.Proofs.Arith
"""]
    n = 0
    for name, t, signed, (hi, lo) in types:
        out.append(f"/-! ### {name} -/\n")
        for m, o in OPS:
            th = f"C11_{name}_{o}"
            if th in skip:
                out.append(f"-- NOT YET PROVED: {th}\n")
                continue
            out.append(f"theorem {th} (a b : Int) (ha : inRange {t} a) (hb : inRange {t} b) :\n"
                       f"    {name}Value.{m} a b = specChecked {t} .{o} a b := by\n"
                       f"  unfold {name}Value.{m}; {tac(o, hi, lo)}\n")
            n += 1
        if signed:
            th = f"C11_{name}_neg"
            if th in skip:
                out.append(f"-- NOT YET PROVED: {th}\n")
            else:
                out.append(f"theorem {th} (a : Int) (ha : inRange {t} a) :\n"
                           f"    {name}Value.Negate a = specNeg {t} a := by\n"
                           f"  unfold {name}Value.Negate; num_arith\n")
                n += 1
    out.append("""/-! ### Non-vacuity: the hypotheses are satisfiable and every branch of the spec is reached -/

example : inRange (.int 8) 127 ∧ inRange (.int 8) 1 ∧ Int8Value.Plus 127 1 = .error .overflow := by decide
example : Int8Value.Minus (-128) 1 = .error .underflow ∧ Int8Value.Plus 100 27 = .ok 127 := by decide
example : Int64Value.Negate (-9223372036854775808) = .error .overflow := by decide
example : UInt8Value.Minus 3 4 = .error .underflow ∧ UInt8Value.Plus 255 1 = .error .overflow := by decide
example : inRange (.int 128) (2 ^ 127 - 1) ∧ Int128Value.Plus (2 ^ 127 - 1) 1 = .error .overflow := by decide
example : UIntValue.Minus 3 4 = .error .underflow ∧ IntValue.Minus 3 4 = .ok (-1) := by decide
example : specChecked (.int 8) .div (-128) (-1) = .error .overflow ∧ specChecked (.int 8) .mod (-7) 2 = .ok (-1) := by decide

end Verif.Properties.C11
""")
    open(os.path.join(ROOT, "lean/Verif/Properties/C11.lean"), "w").write("\n".join(out))
    return n

def c12():
    out = ["""/-
C12 — Word arithmetic wraps modulo 2^n.

For Word8..Word256 and + - * / % the *generated* definition `Verif.Gen.NumGo.Word<n>Value.<Op>` equals
`Verif.Spec.Arith.specWord n`: the exact result reduced modulo 2^n — never overflow / underflow, never
a Go run-time panic; division or remainder by zero is the division-by-zero error.
-/
import Verif.Proofs.ArithMul
namespace Verif.Properties.C12
open Verif.Model.Num Verif.Spec.Arith Verif.Gen.NumGo Verif.Proofs.Arith
"""]
    n = 0
    for w in (8, 16, 32, 64, 128, 256):
        out.append(f"/-! ### Word{w} -/\n")
        for m, o in OPS:
            th = f"C12_Word{w}_{o}"
            if th in skip:
                out.append(f"-- NOT YET PROVED: {th}\n")
                continue
            out.append(f"theorem {th} (a b : Int) (ha : inRange (.word {w}) a) (hb : inRange (.word {w}) b) :\n"
                       f"    Word{w}Value.{m} a b = specWord {w} .{o} a b := by\n"
                       f"  unfold Word{w}Value.{m}; {tac(o, 2 ** w - 1, 0)}\n")
            n += 1
    out.append("""/-- the spec never fails with overflow / underflow: a Word operation fails only by division by zero -/
theorem C12_only_divZero (n : Nat) (op : Op) (a b : Int) (e : NumErr) (h : specWord n op a b = .error e) :
    e = .divZero ∧ b = 0 ∧ op.divides = true := by
  unfold specWord at h
  split at h
  · rename_i hc; cases h; exact ⟨rfl, hc.2, hc.1⟩
  · cases h

/-! ### Non-vacuity -/

example : inRange (.word 8) 255 ∧ Word8Value.Plus 255 1 = .ok 0 ∧ Word8Value.Minus 0 1 = .ok 255 := by decide
example : Word16Value.Mul 65535 2 = .ok 65534 ∧ Word8Value.Div 7 0 = .error .divZero := by decide
example : Word128Value.Minus 0 1 = .ok (2 ^ 128 - 1) ∧ Word256Value.Plus (2 ^ 256 - 1) 2 = .ok 1 := by decide

end Verif.Properties.C12
""")
    open(os.path.join(ROOT, "lean/Verif/Properties/C12.lean"), "w").write("\n".join(out))
    return n

print("C11:", c11(), "theorems; C12:", c12() + 1, "theorems")
