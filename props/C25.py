PROP = {
    "id": "C25",
    "theorem_modules": ["Verif.Properties.C25"],
    "min_theorems": 14,
    "required_theorems": [
        "Verif.Properties.C25.ids_fresh",
        "Verif.Properties.C25.index_consistent",
        "Verif.Properties.C25.index_consistent_step",
        "Verif.Properties.C25.retarget_consistent",
        "Verif.Properties.C25.ids_fresh_hist",
        "Verif.Properties.C25.getControllers_exact",
        "Verif.Properties.C25.get_published_only",
        "Verif.Properties.C25.inbox_claim",
        "Verif.Properties.C25.borrow_iff",
        "Verif.Properties.C25.capability_borrow_iff",
        "Verif.Properties.C25.untyped_capability_borrow_iff",
        "Verif.Properties.C25.retarget_away_and_back",
    ],
    "streams": [
        {"name": "caps", "driver": "drv_caps",
         "quick": {"n": 350}, "thorough": {"n": 6000, "seeds": 4},
         "timeout": {"quick": 300, "thorough": 1500}},
    ],
    "exhaustive": False,
    "technique": "Lean 4 proof of a refinement between two layers of a capability model (storage layout of stdlib/account.go vs "
                 "set of live controllers) + refinement testing of the real runtime against the machine on generated histories",
    "level_text": "Lean theorems about Verif.Model.Caps: issue returns counter+1, larger than every live id, and advances the "
                  "counter; the refinement invariant (path index = live controllers targeting the path, no repetition, ids below "
                  "the counter) holds initially and is preserved by every operation (issue, retarget = unrecord + record, delete, "
                  "setTag, queries, publish/unpublish, inbox, save/load), hence in every account after every history of "
                  "transactions with aborts (index_consistent, induction over operation lists), and no history reaches an "
                  "`unreachable` branch of the Go code; under it getControllers/forEachController report exactly the live controllers of the path; "
                  "capabilities.get returns only a currently published capability with a live controller and related types; "
                  "borrow yields a reference exactly when published, live, types related and the stored value is a subtype "
                  "(borrow_iff, both directions) and never changes the state; the same rule for a capability VALUE whose type differs "
                  "from its controller's (obtained with capabilities.get<&G>, held as untyped Capability or re-published): the wanted "
                  "type is compared with the capability's type AND with the controller's type (capability_borrow_iff, "
                  "untyped_capability_borrow_iff); retargeting away and back restores every listing (retarget_away_and_back); an inbox claim returns "
                  "only what that provider published for that claimer under that name and at most once.  Tied to /repo by the "
                  "`caps` stream: histories of issue / retarget / delete / setTag / getController(s) / forEachController / "
                  "publish / unpublish / exists / get / borrow / get<&G> + untyped check<&W> / borrow<&W> / re-publish / "
                  "inbox publish, unpublish, claim / save / load over 3 accounts, "
                  "4 storage paths, 2 public paths, 4 borrow types, sequences of calls (retargets away and back, setTag, reads, "
                  "listings, delete) through ONE loaded controller reference, and accounts with many (8..120) controllers "
                  "(controller map and id sets over several slabs; every change re-read in the next transaction), as Cadence transactions on the real runtime (persistent "
                  "ledger, both engines); every log line and outcome class compared with the machine; the tables stored value x "
                  "controller type x wanted type, first stored value x replacing value x controller type x capability type G x "
                  "wanted type W (untyped and re-published) and the inbox type table are covered exhaustively.",
    "level_note": "proof (refinement between two model layers) + CC.  Borrow types carry no authorizations (CanBorrow's PermitsAccess part is not exercised); "
                  "account capability controllers are not modelled.",
    "assumptions": ["type universe &C.S, &C.S2 (S2: I), &{C.I}, &AnyStruct without authorizations",
                    "host account-id counter is rolled back with a failed transaction (internal/acct)"],
    "trusted_base": ["model Verif.Model.Caps (concrete layer hand-written from stdlib/account.go; is the spec for the stream)",
                     "Go harness cmd/vharness/stream_caps.go, internal/acct", "driver Drv/Caps.lean"],
}
