PROP = {
    "id": "C47",
    "theorem_modules": ["Verif.Properties.C47"],
    "min_theorems": 8,
    "required_theorems": [
        "Verif.Properties.C47.bounded",
        "Verif.Properties.C47.uniform",
        "Verif.Properties.C47.uniform_all_draws",
        "Verif.Properties.C47.retry",
        "Verif.Properties.C47.no_modulo_uniform",
        "Verif.Properties.C47.zero_modulo",
    ],
    "streams": [
        {"name": "rand", "driver": "drv_rand",
         "quick": {"n": 4000}, "thorough": {"n": 60000, "seeds": 3}},
    ],
    "exhaustive": True,
    "technique": "Lean 4 proof over a line-by-line port of stdlib/random.go (rejection sampling as a function of the "
                 "host's random byte stream) + correspondence stream with a scripted ReadRandom",
    "level_text": "Lean theorems about a code-shaped model of stdlib/random.go (getUint64RandomNumber / getBigRandomNumber / "
                  "RevertibleRandom): every result < modulo; the draw -> masked candidate map is exactly "
                  "2^(8*byteSize-bitSize)-to-one, so every value below the modulo has the same number of accepting draws "
                  "(counting theorem, no modulo bias); for every source length L any two values below the modulo are returned by the same number of the 256^L sources (all draws); a rejected draw leaves a fresh call on the rest of the stream; no "
                  "modulo = bijection from the drawn bytes onto T; zero modulo = user error.  Tied to /repo by the `rand` "
                  "stream: host ReadRandom scripted from a byte string, stdlib.RevertibleRandom directly and "
                  "revertibleRandom<T>(modulo:) scripts in both engines; UInt8: all 256 moduli x all 256 first source bytes; "
                  "exact histograms over all 1- and 2-byte sources (all 8-bit moduli, boundary/random 16-bit moduli); boundary "
                  "and random moduli with random / adversarial sources for the wider types; value, number and size of "
                  "ReadRandom calls compared with the model.",
    "level_note": "Trusted: Lean kernel; the hand-written port (validated by the stream); harness and driver.  uint64 "
                  "arithmetic modelled on Nat with the one possibly overflowing operation reduced mod 2^64.  Non-termination "
                  "on a source that never yields an accepted draw is outside the property: the model's source is a finite "
                  "list and the call then ends with the host's failure.",
    "assumptions": ["modulo is a value of T (guaranteed by the checker)",
                    "uniformly random source bytes = counting measure on byte strings of a fixed length"],
    "trusted_base": ["hand-written port Verif.Model.Random validated by stream rand",
                     "Go harness cmd/vharness/stream_rand.go", "driver Drv/Rand.lean"],
}
