PROP = {
    "id": "C11",
    "gen": [["vtool", "gen-numgo"]],
    "tool_files": ["tool_numgo.go", "tool_numgo_eval.go", "tool_numgo_exec.go"],
    "theorem_modules": ["Verif.Properties.C11"],
    "min_theorems": 77,
    "required_theorems": ["Verif.Properties.C11.C11_Int8_add", "Verif.Properties.C11.C11_Int64_sub", "Verif.Properties.C11.C11_Int32_mul", "Verif.Properties.C11.C11_Int64_div", "Verif.Properties.C11.C11_Int8_mod", "Verif.Properties.C11.C11_Int128_add", "Verif.Properties.C11.C11_Int256_mul", "Verif.Properties.C11.C11_UInt8_add", "Verif.Properties.C11.C11_UInt64_mul", "Verif.Properties.C11.C11_UInt128_sub", "Verif.Properties.C11.C11_Int_add", "Verif.Properties.C11.C11_UInt_sub", "Verif.Properties.C11.C11_Int16_neg"],
    "streams": [
        {"name": "num", "driver": "drv_num",
         "quick": {"n": 400}, "thorough": {"n": 8000, "seeds": 3}},
    ],
    "exhaustive": True,
    "technique": "Lean 4 theorems about definitions regenerated from interpreter/value_*.go by a semantic Go->Lean "
                 "translator (vtool gen-numgo), one per (type, operation); translator validated by the `num` stream",
    "level_text": "For every checked integer type and + - * / % and unary minus: a Lean theorem that the definition "
                  "regenerated from the Go method on every run equals the exact-or-error spec for all operands of the "
                  "type.  The `num` stream ties the translation to the running code: real Go methods vs spec vs generated "
                  "definitions, exhaustively for Int8/UInt8 (all pairs x 5 ops), boundary-biased pairs for all 14 types, "
                  "and a sample through scripts in both engines.",
    "level_note": "Trusted: Lean kernel; the translator's reading of the Go subset (validated by the stream, exhaustive at "
                  "8 bits); math/big modelled as Int; harness and driver.",
    "assumptions": ["operands are values of the type (inRange)", "math/big is exact integer arithmetic",
                    "64-bit platform (uint = 64 bits)"],
    "trusted_base": ["translator vtool gen-numgo (validated by stream num)", "Go harness cmd/vharness/stream_num.go",
                     "driver Drv/Num.lean"],
}
