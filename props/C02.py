PROP = {
    "id": "C02",
    "theorem_modules": ["Verif.Properties.C02"],
    "min_theorems": 4,
    "required_theorems": [
        "Verif.Properties.C02.move_vacates_source",
        "Verif.Properties.C02.loss_guard",
        "Verif.Properties.C02.double_destroy_guard",
        "Verif.Properties.C02.create_fresh_uuid",
    ],
    "streams": [
        {"name": "resown", "driver": "drv_lang2",
         "quick": {"n": 500}, "thorough": {"n": 6000, "seeds": 4}},
    ],
    "harness_files": ["stream_lang2.go"],
    "exhaustive": False,
    "technique": "Lean 4 proof over the object heap of the muCadence L2 evaluator (resources as cells with identity, "
                 "slots, moves, destroy) + correspondence stream on the real parser's AST in both engines + "
                 "model-independent resource census",
    "level_text": 'Lean theorems, for every program, state and fuel of the L2 evaluator, for the run-time guards that keep each resource in exactly one slot: a move out of a variable leaves the variable invalid so that it no longer gives access to the resource (move_vacates_source); a guarded write over a slot that still holds a live resource fails with resource-loss and changes nothing (loss_guard); destroying a dead cell fails and emits no second event (double_destroy_guard); creation takes the uuid from a counter that it advances, so uuids are pairwise distinct (create_fresh_uuid). Tied to /repo by the stream `resown`: generated programs that create tagged resources and move them between optional variables, nested optional fields, nested arrays and dictionaries, local arrays and dictionaries and account storage by every move form (declaration, argument, return, <-!, swap, second-value declaration on variables / fields / array elements / dictionary entries, optional binding, append, insert, remove, removeFirst, removeLast, dictionary insert / remove, save, load) and destroy some (default ResourceDestroyed events with a tag argument); at the end the program walks storage through references and logs tag and uuid of every resource found; interpreter and VM; the model evaluator runs on the S-expression of the AST + elaboration the runtime produced and must produce the same log and the same event multiset. Direct oracle independent of the model (resource census, both engines): no uuid twice; every created tag exactly once among stored + destroyed; nothing stored / destroyed that was not created; engines agree; no internal error.',
    "level_note": "proof (per-primitive guards on the fragment's evaluator) + CC, partial: the full-strength invariant single_owner ('every live resource identity occurs in exactly one slot', preserved by every successful step of every program), no_loss and destroy_event_once are NOT proved as inductions over the evaluator; they are covered by the model-independent census of the stream on generated programs only. Storage is exercised within one execution (script with getAuthAccount); cross-transaction histories, attachments, contracts are not generated. Trusted: Lean kernel; the hand-written evaluator (validated by the stream); bridge harness/internal/sx2; driver.",
    "assumptions": ["programs of the fragment (DESIGN 4.1 L0-L2; no attachments, interfaces, contracts)",
                    "storage within one execution (script with getAuthAccount); cross-transaction histories not generated"],
    "trusted_base": ["hand-written evaluator Verif.Model.Lang2.Eval validated by stream resown",
                     "bridge harness/internal/sx2 (AST + elaboration -> S-expression)", "driver Drv/Lang2.lean"],
}
