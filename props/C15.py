PROP = {
    "id": "C15",
    "gen": [["vtool", "gen-numgo"], ["vtool", "gen-numfix"]],
    "tool_files": ["tool_numgo.go", "tool_numgo_eval.go", "tool_numgo_exec.go", "tool_numfix.go"],
    "harness_files": ["stream_num.go"],
    "theorem_modules": ["Verif.Properties.C15"],
    "min_theorems": 12,
    "required_theorems": [f"Verif.Properties.C15.C15_{t}_{o}" for t in ("fix64", "ufix64") for o in ("add", "sub", "mul", "div")] +
        ["Verif.Properties.C15.C15_fix64_neg", "Verif.Properties.C15.C15_mul_is_truncation",
         "Verif.Properties.C15.C15_div_is_truncation", "Verif.Properties.C15.C15_spec_errors"],
    "streams": [
        {"name": "fix", "driver": "drv_fix",
         "quick": {"n": 600}, "thorough": {"n": 20000, "seeds": 3}},
    ],
    "exhaustive": False,
    "technique": "Lean 4 theorems about definitions regenerated from interpreter/value_fix64.go, value_ufix64.go and "
                 "values/value_ufix64.go by the semantic Go->Lean translator (vtool gen-numfix); 128-bit types and % by the "
                 "`fix` correspondence stream against the exact-rational spec",
    "level_text": "Fix64 and UFix64 + - * / (and Fix64 unary minus): a Lean theorem per (type, operator) that the definition "
                  "regenerated from the Go method on every run equals the exact rational result truncated toward zero to "
                  "10^-8, with overflow / underflow exactly when that is out of range and division by zero for a zero "
                  "divisor (C15_mul/div_is_truncation state that the spec's raw formula is that truncation).  Partial: % "
                  "(both 64-bit types), all of Fix128 / UFix128 (external library onflow/fixed-point) and the script "
                  "pipeline are covered by the `fix` stream only — boundary-biased raw operand pairs (0, +-1 unit, +-1.0, "
                  "min, max, factors around sqrt(max*scale), max/k, sub-unit products) through the real methods of all "
                  "four types and through scripts in both engines, judged by the exact-rational spec; for % a failure is "
                  "accepted only when the quotient is out of range.  multiplyDivide is not covered.",
    "level_note": "Trusted: Lean kernel; the translator (validated by the stream); math/big modelled as Int; the library "
                  "onflow/fixed-point (compared, not modelled); harness and driver.",
    "assumptions": ["operands are values of the type (raw integer in the Int64 / UInt64 range)", "math/big is exact integer arithmetic"],
    "trusted_base": ["translator vtool gen-numfix (validated by stream fix)", "library github.com/onflow/fixed-point (Fix128/UFix128; stream only)",
                     "Go harness cmd/vharness/stream_fix.go + stream_num.go", "driver Drv/Fix.lean"],
}
