PROP = {
    "id": "C15",
    "gen": [["vtool", "gen-numgo"], ["vtool", "gen-numfix"]],
    "tool_files": ["tool_numgo.go", "tool_numgo_eval.go", "tool_numgo_exec.go", "tool_numfix.go"],
    "harness_files": ["stream_num.go"],
    "theorem_modules": ["Verif.Properties.C15"],
    "min_theorems": 21,
    "required_theorems": [f"Verif.Properties.C15.C15_{t}_{o}" for t in ("fix64", "ufix64") for o in ("add", "sub", "mul", "div")] +
        ["Verif.Properties.C15.C15_fix64_neg", "Verif.Properties.C15.C15_mul_is_truncation",
         "Verif.Properties.C15.C15_div_is_truncation", "Verif.Properties.C15.C15_spec_errors"] +
        [f"Verif.Properties.C15.C15_{n}" for n in ("roundDiv_exact", "roundDiv_within_unit", "roundDiv_towardZero", "roundDiv_awayFromZero",
                                                    "roundDiv_nearest", "roundDiv_ties", "mulDiv_spec",
                                                    "div128_witness", "mulDiv128_witness")],
    "streams": [
        {"name": "fix", "driver": "drv_fix",
         "quick": {"n": 600}, "thorough": {"n": 20000, "seeds": 3}},
    ],
    "exhaustive": False,
    "technique": "Lean 4 theorems about definitions regenerated from interpreter/value_fix64.go, value_ufix64.go and "
                 "values/value_ufix64.go by the semantic Go->Lean translator (vtool gen-numfix); 128-bit types, % and multiplyDivide by the "
                 "`fix` correspondence stream against the exact-rational spec",
    "level_text": "Fix64 and UFix64 + - * / (and Fix64 unary minus): a Lean theorem per (type, operator) that the definition "
                  "regenerated from the Go method on every run equals the exact rational result truncated toward zero to "
                  "10^-8, with overflow / underflow exactly when that is out of range and division by zero for a zero "
                  "divisor (C15_mul/div_is_truncation state that the spec's raw formula is that truncation).  Partial: % "
                  "(both 64-bit types), all of Fix128 / UFix128 (external library onflow/fixed-point) and the script "
                  "pipeline are covered by the `fix` stream only — boundary-biased raw operand pairs (0, +-1 unit, +-1.0, "
                  "min, max, factors around sqrt(max*scale), max/k, sub-unit products) through the real methods of all "
                  "four types and through scripts in both engines, judged by the exact-rational spec; for % a failure is "
                  "accepted only when the quotient is out of range.  multiplyDivide (all four types; the computation is the "
                  "external library's fused multiply-divide) is covered by the `fix` stream only: the specification "
                  "`specMulDiv` = the exact rational a*b/c rounded to a raw integer by the requested RoundingRule (towardZero, "
                  "awayFromZero, nearestHalfAway, nearestHalfEven; towardZero when the argument is omitted), overflow / "
                  "underflow when that is out of range, division by zero for c = 0; every rule on every triple, triples biased "
                  "to inexact quotients, divisors of exactly +-1.0, exact ties and one-off ties, quotients that only the "
                  "rounding pushes out of range, zero divisors, both signs, through the Go methods and through scripts in "
                  "both engines; a disagreement is a VIOLATION.  Theorems about that specification (not about the library): "
                  "every rule is exact when c divides a*b, stays within one unit, towardZero / awayFromZero bound the "
                  "magnitude from the named side, the nearest rules stay within half a unit, ties go away from zero / to the "
                  "even neighbour (C15_roundDiv_*, C15_mulDiv_spec).  Known finding (external library, found by these operations): "
                  "the 128-bit division of onflow/fixed-point v0.1.1 assumes a quotient word of 2^64-1 where it can be 2^64-2 — "
                  "UFix128 / Fix128 `/`, saturatingDivide and multiplyDivide then return a value one unit too large, a garbage "
                  "value, or fail with an internal error (library panic); class fixlib-div128-quotient-word-assumed-all-ones is "
                  "given only to answers of that shape on inputs of the defect's shape (wide divisor, quotient word 2^64-2); "
                  "witnesses C15_div128_witness / C15_mulDiv128_witness are stated on the specification side (no model of the library).",
    "level_note": "Trusted: Lean kernel; the translator (validated by the stream); math/big modelled as Int; the library "
                  "onflow/fixed-point (compared, not modelled); harness and driver.",
    "assumptions": ["operands are values of the type (raw integer in the Int64 / UInt64 range)", "math/big is exact integer arithmetic"],
    "trusted_base": ["translator vtool gen-numfix (validated by stream fix)", "library github.com/onflow/fixed-point (Fix128/UFix128; stream only)",
                     "Go harness cmd/vharness/stream_fix.go + stream_num.go", "driver Drv/Fix.lean"],
}
