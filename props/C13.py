_S = [f"Int{w}_{o}" for w in (8, 16, 32, 64, 128, 256) for o in ("satadd", "satsub", "satmul", "satdiv")] + \
     [f"UInt{w}_{o}" for w in (8, 16, 32, 64, 128, 256) for o in ("satadd", "satsub", "satmul")] + ["UInt_satsub"]
PROP = {
    "id": "C13",
    "gen": [["vtool", "gen-numgo"]],
    "tool_files": ["tool_numgo.go", "tool_numgo_eval.go", "tool_numgo_exec.go"],
    "harness_files": ["stream_num.go"],
    "theorem_modules": ["Verif.Properties.C13"],
    "min_theorems": 47,
    "required_theorems": [f"Verif.Properties.C13.C13_{s}" for s in _S] +
        ["Verif.Properties.C13.C13_only_divZero", "Verif.Properties.C13.C13_result_inRange",
         "Verif.Properties.C13.C13_exact_when_representable"],
    "streams": [
        {"name": "sat", "driver": "drv_num2",
         "quick": {"n": 200}, "thorough": {"n": 6000, "seeds": 3}},
    ],
    "exhaustive": True,
    "technique": "Lean 4 theorems about definitions regenerated from interpreter/value_*.go by the semantic Go->Lean "
                 "translator (vtool gen-numgo), one per declared (type, saturating member); translator validated by the `sat` stream",
    "level_text": "For every integer type and every saturating member Cadence declares for it (Int8..Int256 x 4, "
                  "UInt8..UInt256 x add/subtract/multiply, UInt subtract): a Lean theorem that the definition regenerated "
                  "from the Go method on every run equals clamp(min T, max T, exact result) for all operands of the type, "
                  "with division by zero as the only error (C13_only_divZero, C13_result_inRange, "
                  "C13_exact_when_representable about the spec).  The `sat` stream ties it to the running code: real Go "
                  "methods vs spec vs generated definitions, exhaustively for Int8/UInt8 (all pairs x 4 methods), "
                  "boundary-biased pairs for all 20 types, and scripts in both engines for every (type, member) pair — "
                  "where a member outside sema's declaration table must be rejected by the checker.",
    "level_note": "Trusted: Lean kernel; the translator's reading of the Go subset (validated by the stream, exhaustive at "
                  "8 bits); math/big modelled as Int; harness and driver.  The Go methods behind undeclared members "
                  "(UInt*.SaturatingDiv, Int/UInt/Word*.Saturating*) are unreachable from Cadence programs (checked by "
                  "the stream); for a zero divisor they return a nil value (C13_unreachable_satdiv_nil_witness).  "
                  "Fixed-point saturating members: property C15's artefact (stream fix).",
    "assumptions": ["operands are values of the type (inRange)", "math/big is exact integer arithmetic",
                    "64-bit platform (uint = 64 bits)"],
    "trusted_base": ["translator vtool gen-numgo (validated by streams num, sat)",
                     "Go harness cmd/vharness/stream_sat.go + stream_num.go", "driver Drv/Num2.lean"],
}
