PROP = {
    "id": "C07",
    "theorem_modules": ["Verif.Properties.C07"],
    "min_theorems": 2,
    "required_theorems": [
        "Verif.Properties.C07.frame_partial",
        "Verif.Properties.C07.frame_no_emit",
        "Verif.Properties.C07.emit_witness",
    ],
    "streams": [
        {"name": "view", "driver": "drv_view",
         "quick": {"n": 400}, "thorough": {"n": 6000, "seeds": 4}},
    ],
    "exhaustive": False,
    "technique": "Lean 4 proof (soundness of a port of the checker's purity analysis w.r.t. an effect semantics) + "
                 "correspondence stream: checker verdicts vs the port, before/after dumps of accepted view functions",
    "level_text": "partial (core calculus): Lean theorem frame_partial — if the port of the purity analysis "
                  "(purity scopes, enforceViewAssignment: root variable / self in initializers / reference and resource "
                  "types on the access chain / activation depth, invocation purity, destroy) accepts a program and the "
                  "built-in purity table is right, every run of a view function, including everything it calls at any "
                  "depth, performs no storage write, no destruction and no write into an object that existed before "
                  "the call (only writes into objects allocated during the call, and events); for programs without emit statements "
                  "events are excluded as well (frame_no_emit). In general events are not excluded: "
                  "the checker accepts emit in view context (emit_witness, known finding view-function-emits-event). "
                  "Tied to /repo by the stream `view`: programs assembled from 42 body snippets (assignment, member / "
                  "index writes on locals, parameters, self, through references; swaps; mutating and view built-ins on "
                  "arrays; user / method / closure calls; references; casts; storage save / load / check / borrow; "
                  "destroy; emit; view initializers writing through a reference field) for a method declared view or "
                  "not: number of PurityErrors from the real checker vs the port; accepted programs run on interpreter, "
                  "VM, VM+peephole with dumps of all pre-existing values before / after the call and the recorded events "
                  "— direct oracle: an accepted view function that changes a dump or emits. "
                  "The calculus leaves out: the value level, optional chaining, attachments (remove), the depth "
                  "arithmetic of nested scopes (declaration depths are supplied by the generator), the built-in purity "
                  "annotations (trusted table BuiltinsSound, exercised dynamically by the stream).",
    "level_note": "proof (core calculus) + CC. Trusted: Lean kernel; the hand-written port and effect semantics; the "
                  "snippet table harness/internal/l3sx/view.go (Cadence text and its encoding side by side); the driver.",
    "assumptions": ["programs of the purity calculus", "built-in functions declared view have no effect (BuiltinsSound)"],
    "trusted_base": ["hand-written model Verif.Model.Lang3.Purity validated by stream view",
                     "snippet table harness/internal/l3sx/view.go", "driver Drv/View.lean"],
}
