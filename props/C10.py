PROP = {
    "id": "C10",
    "theorem_modules": ["Verif.Properties.C10"],
    "min_theorems": 3,
    "required_theorems": [
        "Verif.Properties.C10.conformance_closure",
        "Verif.Properties.C10.enforced",
        "Verif.Properties.C10.inherited_complete",
        "Verif.Properties.C10.desugar_differs_witness",
        "Verif.Properties.C10.desugar_equiv_partial",
        "Verif.Properties.C10.enforced_vm_partial",
        "Verif.Properties.C10.before_extraction_wf",
    ],
    "streams": [
        {"name": "cond", "driver": "drv_cond",
         "quick": {"n": 700}, "thorough": {"n": 8000, "seeds": 4}},
    ],
    "exhaustive": False,  # the conf part enumerates all graphs over three interfaces (160) on every run
    "technique": "Lean 4 proof over a line-by-line port of distinctConformances and a core calculus of condition "
                 "wrappers (interpreter) / condition inlining (VM desugaring) + correspondence stream on generated "
                 "interface DAGs in both engines",
    "level_text": "partial (core calculus): Lean theorems, for all interface graphs / programs / states of the calculus: "
                  "distinctConformances returns exactly the transitive closure of the explicit conformances, each "
                  "interface once, for every acyclic graph (conformance_closure); a call returns normally only if "
                  "every own and inherited pre-condition held in the entry state and every own and inherited "
                  "post-condition in the exit state, with before-values captured at entry and result bound to the "
                  "returned value (enforced), where 'inherited' covers every interface reachable from the composite "
                  "(inherited_complete); the VM's desugared program (every inherited condition inlined into one "
                  "function, before-variables renumbered) has the same outcome, final state and ordered log/event "
                  "trace as the interpreter's wrappers whenever the before statements cannot fault and the "
                  "post-conditions use only their own before-variables (desugar_equiv_partial, enforced_vm_partial; "
                  "programSafe is a decidable sufficient condition); without that hypothesis the engines differ "
                  "(desugar_differs_witness, known finding vm-before-hoisted-over-pre). Tied to /repo by the stream `cond`: (a) all 160 conformance graphs over three interfaces with every ordered explicit conformance "
                  "list, and random conformance DAGs over up to seven, declared in Cadence, EffectiveInterfaceConformances() of every type from the real checker vs the port, plus the "
                  "closure spec judged on the Go answer alone; (b) generated composites implementing interface DAGs "
                  "(diamonds) with emit/test conditions using before and result at every level, default and "
                  "overriding implementations, nested calls, run on interpreter, VM and VM+peephole: outcome, log and "
                  "the ordered EmitEvent payloads vs the wrapper model (interpreter) and the desugared model (VM); "
                  "a third of the programs (random ones, and a directed family in which the inherited and the own "
                  "post-conditions of the same function capture different before-values, fields starting different) are also "
                  "rendered as two deployed contracts plus a script (`mprog`: interfaces in contract CA, remaining interfaces and "
                  "the composite in contract CB at the same address or, as control, at another address) and judged by the same "
                  "models; a further family builds the conditions from the expression forms the before-extractor rewrites "
                  "(conditional `c ? p : q` with tests of known and of state-dependent truth value, unary minus, "
                  "invocation `Int(e)`, cast + force `(e as Int?)!`, force cast, array literal + index), with before(..) nested "
                  "inside, in own / inherited conditions and default implementations; these source-level forms reach the "
                  "calculus as equivalent calculus expressions (`c ? p : q` as `(c && p) || (!c && q)`, `-e` as `0 - e`, the "
                  "others as their operand; same value, faults and evaluation order). "
                  "Direct oracle: a run that completes although a condition that is false in every state (`false`, "
                  "`e < e` such as `before(e) < before(e)`, `e + k == e`, closed under `&&`, `||`, `!`, hence also a conditional "
                  "whose taken branch is false) was in scope. "
                  "The calculus leaves out: value types other than Int, resources (result as a reference), void "
                  "functions, initializer / global-function / transaction conditions, condition messages "
                  "(interfaces declared in another contract are run as a rendering of the same calculus program).",
    "level_note": "proof (core calculus) + CC. Trusted: Lean kernel; the hand-written calculus (validated by the stream); "
                  "the generator's two renderers (Cadence source / S-expression) in harness/internal/l3sx; the driver.",
    "assumptions": ["programs of the condition calculus (functions (Int, Int) -> Int on one struct with two Int fields)",
                    "acyclic conformance graph (the checker rejects cycles)"],
    "trusted_base": ["hand-written models Verif.Model.Lang3.{Conformance,Conditions} validated by stream cond",
                     "generator + renderers harness/internal/l3sx/cond.go", "driver Drv/Cond.lean"],
}
