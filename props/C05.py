PROP = {
    "id": "C05",
    "theorem_modules": ["Verif.Properties.C05"],
    "min_theorems": 6,
    "required_theorems": [
        "Verif.Properties.C05.fresh_copy",
        "Verif.Properties.C05.transfer_is_copy",
        "Verif.Properties.C05.independent",
        "Verif.Properties.C05.independent_rev",
        "Verif.Properties.C05.storage_copy",
        "Verif.Properties.C05.storage_save",
    ],
    "streams": [
        {"name": "copysem", "driver": "drv_lang2",
         "quick": {"n": 500}, "thorough": {"n": 6000, "seeds": 4}},
    ],
    "harness_files": ["stream_lang2.go"],
    "exhaustive": False,
    "technique": "Lean 4 proof over the object heap of the muCadence L2 evaluator (values with identity, deep copy on "
                 "transfer) + correspondence stream on the real parser's AST in both engines",
    "level_text": "Lean theorems for every heap, value, fuel and mutation history: the transfer of a non-resource value "
                  "is a deep copy into fresh cells, so the reachable identity sets of source and result are disjoint "
                  "(fresh_copy, transfer_is_copy); any sequence of cell writes / allocations confined to the copy's "
                  "region (every identity reachable from the copy stays there) leaves the full structural dump of the "
                  "original unchanged, and vice versa (independent, independent_rev); storage copy / save hand out / "
                  "store a transfer (storage_copy, storage_save). Tied to /repo by the stream `copysem`: nested "
                  "struct / array / dictionary / optional values to depth 5, every transfer form (declaration, "
                  "assignment, argument+return, field initialisation, field write by a method, array append, dictionary "
                  "literal, storage save+load, storage save+copy, closure capture), random mutation scripts on one side "
                  "(owned paths, struct methods, optional chaining, references incl. auth(Mutate) references to nested "
                  "containers), full dumps of both sides before and after, interpreter and VM; the model evaluator runs "
                  "on the S-expression of the AST + elaboration the runtime produced and must log the same dumps. "
                  "Direct oracle independent of the model: the dump of the untouched side is identical before and after "
                  "the mutations; engines agree; no internal error.",
    "level_note": "proof (fragment L1/L2 heap) + CC, partial: the independence theorems are stated on the heap (writes "
                  "confined to the region reachable from one side); that every step of the evaluator writes only cells "
                  "reachable from the value it writes through is by construction of the evaluator's location "
                  "resolution and validated by the stream, not proved as an evaluator-level induction. Closure capture "
                  "and cross-transaction storage are covered by the direct oracle only (outside the model's fragment). "
                  "Trusted: Lean kernel; the hand-written evaluator (validated by the stream); the bridge "
                  "harness/internal/sx2; the driver.",
    "assumptions": ["programs of the fragment (DESIGN 4.1 L0-L2 without closures, interfaces, casts other than static)",
                    "storage transfers within one execution (script with getAuthAccount)"],
    "trusted_base": ["hand-written evaluator Verif.Model.Lang2.Eval validated by stream copysem",
                     "bridge harness/internal/sx2 (AST + elaboration -> S-expression)", "driver Drv/Lang2.lean"],
}
