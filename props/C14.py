_TYPES = [f"{f}{w}" for f in ("Int", "UInt", "Word") for w in (8, 16, 32, 64, 128, 256)]
PROP = {
    "id": "C14",
    "gen": [["vtool", "gen-numgo"]],
    "tool_files": ["tool_numgo.go", "tool_numgo_eval.go", "tool_numgo_exec.go"],
    "harness_files": ["stream_num.go"],
    "theorem_modules": ["Verif.Properties.C14"],
    "min_theorems": 110,
    "required_theorems":
        [f"Verif.Properties.C14.C14_{t}_{o}" for t in _TYPES for o in ("and", "or", "xor", "shl", "shr")] +
        [f"Verif.Properties.C14.C14_{t}_{o}" for t in ("Int", "UInt") for o in ("and", "or", "xor", "shl", "shr")] +
        ["Verif.Properties.C14.C14_specShlExec_eq", "Verif.Properties.C14.C14_specShrExec_eq",
         "Verif.Properties.C14.C14_fixed_shl_sign", "Verif.Properties.C14.C14_fixed_shr_huge"],
    "streams": [
        {"name": "bits", "driver": "drv_num2",
         "quick": {"n": 150}, "thorough": {"n": 4000, "seeds": 3}},
    ],
    "exhaustive": True,
    "technique": "Lean 4 theorems about definitions regenerated from interpreter/value_*.go by the semantic Go->Lean "
                 "translator (vtool gen-numgo), one per (type, operation); translator validated by the `bits` stream",
    "level_text": "For each of the 20 integer types and & | ^ << >>: a Lean theorem that the definition regenerated from "
                  "the Go method on every run equals the two's-complement specification for all operands of the type "
                  "(& | ^ = the operation on the n-bit patterns; << = a*2^k reduced to the width, exact for Int/UInt; "
                  ">> = floor(a/2^k) for every k >= 0 of the type; negative k = NegativeShift error; Int/UInt overflow "
                  "exactly when k >= 2^64).  The `bits` stream ties the translation to the running code: real Go methods "
                  "vs executable spec (proved equal to the spec: C14_specSh{l,r}Exec_eq) vs generated definitions, "
                  "exhaustively for Int8/UInt8/Word8 (all pairs x 5 ops, incl. every negative shift), boundary-biased "
                  "operands and shift amounts 0..n+1, 2^63+-1, 2^64+-1, max T for the others, and a sample through "
                  "scripts in both engines.  Witnesses of the two defects fixed in f845962 run first (corpus/bits).",
    "level_note": "Trusted: Lean kernel; the translator's reading of the Go subset and the hand ports of "
                  "toTwosComplement/truncate/big.Int And/Or/Xor/Lsh/Rsh/Bit in Model/Num/Basic.lean (validated by the "
                  "stream, exhaustive at 8 bits); math/big modelled as Int; harness and driver.  Int/UInt shifts by "
                  "more than 8191 and less than 2^64 bits are not run (memory exhaustion, not arithmetic).",
    "assumptions": ["operands are values of the type (inRange)", "math/big is exact integer arithmetic",
                    "64-bit platform (uint = 64 bits)"],
    "trusted_base": ["translator vtool gen-numgo (validated by streams num, bits)", "hand ports in Model/Num/Basic.lean (Go.land/lor/xor, truncateWords, toTwosComplement, bit)",
                     "Go harness cmd/vharness/stream_bits.go + stream_num.go", "driver Drv/Num2.lean"],
}
