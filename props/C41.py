PROP = {
    "id": "C41",
    "theorem_modules": ["Verif.Properties.C41"],
    "min_theorems": 10,
    "required_theorems": [
        "Verif.Properties.C41.reencode_erase",
        "Verif.Properties.C41.roundtrip_partial",
        "Verif.Properties.C41.fixed_text_roundtrip",
        "Verif.Properties.C41.types_roundtrip_partial",
        "Verif.Properties.C41.roundtrip_embedded_types_partial",
        "Verif.Properties.C41.decode_total",
        "Verif.Properties.C41.simple_types_ok",
    ],
    "gen": [["vtool", "gen-ccftags"]],
    "tool_files": ["tool_ccftags.go"],
    "streams": [
        {"name": "json", "driver": "drv_json",
         "quick": {"n": 2500}, "thorough": {"n": 40000, "seeds": 4}},
    ],
    "exhaustive": False,
    "technique": "Lean 4 proof over a code-shaped model of encoding/json (Prepare/PrepareType, Decode on the JSON tree) "
                 "+ correspondence stream on generated values and mutated encodings + fact table from the running decoder",
    "level_text": "Lean theorems about a port of encoding/json/encode.go and decode.go over the external value/type algebra: "
                  "the erased value re-encodes to the same JSON tree for every value; decode(prepare v) = erase v for every "
                  "value built from scalars (all integer and fixed-point kinds in range, strings, characters, addresses, paths, nil, void) with "
                  "optionals, arrays, dictionaries, ranges and composite values at any nesting, and for type values / "
                  "capabilities whose type has no composite types (types_roundtrip for such types); decimal/hex text round "
                  "trips; totality of the decoder port. Tie: stream `json` - values and types from a recursive generator "
                  "(all value kinds except attachments; all type kinds incl. repeated composite types in one type value): Go "
                  "json.Encode parsed to a tree = prepare v, Go json.Decode = model decode = erase v, re-encoding identical; "
                  "JSON-structure mutations of encodings (same verdict and value as the model) and byte-level mutations "
                  "(value or error, no escaping panic, no hang).",
    "level_note": "Partial: the round trip of functions and of embedded types containing composite / "
                  "interface / intersection / function types or entitlements is correspondence-checked, not yet a theorem. Outside the model (SKIP): characters of several code points (grapheme segmentation), type IDs of "
                  "shapes other than A.<addr>.<names> / S.<name>.<names> (common.DecodeTypeID belongs to C45), JSON numbers "
                  "that are not natural-number literals. Known findings: attachments cannot be decoded; a composite type that "
                  "repeats a field type in an initializer cannot be decoded. Trusted: Lean kernel; the hand-written ports "
                  "(validated by the stream); Go's encoding/json and the driver's JSON parser; harness and driver.",
    "assumptions": ["pointer identity of composite types inside one type value coincides with equality of type IDs "
                    "(the harness prints repeated occurrences as (rec id) by pointer)"],
    "trusted_base": ["hand-written ports Verif.Model.Codec.Json / CValue / TypeID validated by stream json",
                     "vtool gen-ccftags (facts from the running codec)",
                     "Go harness cmd/vharness/stream_json.go, internal/cval", "driver Drv/Json.lean (JSON text parser, S-expression reader)"],
}
