PROP = {
    "id": "C48",
    "theorem_modules": ["Verif.Properties.C48"],
    "min_theorems": 2,
    "required_theorems": [
        "Verif.Properties.C48.event_shape",
        "Verif.Properties.C48.destroy_defaults",
        "Verif.Properties.C48.inherited_events_order",
    ],
    "streams": [
        {"name": "events", "driver": "drv_events",
         "quick": {"n": 500}, "thorough": {"n": 8000, "seeds": 4}},
    ],
    "exhaustive": False,
    "technique": "Lean 4 proof over a core calculus of event emission and resource destruction + correspondence "
                 "stream on the recording host's EmitEvent payloads in both engines",
    "level_text": "partial (core calculus): Lean theorems, for all programs of the calculus and all runs (complete or "
                  "failing): every payload handed to the host is an instance of a declared event — its type id, exactly "
                  "its declared fields in declaration order, every value conforming to the declared field type "
                  "(event_shape; emit statements, emit conditions and destruction events alike); destroying a resource "
                  "emits the events of its nested resource first, then the ResourceDestroyed payloads inherited from its "
                  "interfaces, one per effective conformance in distinctConformances order (inherited_events_order), "
                  "then its own ResourceDestroyed payload whose values are the default-argument expressions evaluated "
                  "on the resource as it was before destruction (destroy_defaults). Tied to /repo by the stream `events`: generated programs declaring events with "
                  "parameters of Int/UInt8/Int64/Bool/String/Address, optionals, doubly optionals and arrays of them, "
                  "references (&T, &T?, [&T], [&T?], [&T]? over Int/String/[Int]/[String], ephemeral and borrowed from "
                  "storage; the same reference value in several fields / array positions of one event; a reference's "
                  "payload is the exported referenced value) (field names "
                  "not in alphabetical order), arguments that are literals, resource fields, conditionals with nil in either "
                  "branch (both truth values), optional chaining, nil-coalescing, force unwrap (also failing), static "
                  "and failable casts, transferred to optional and doubly optional parameters; emitting them from statements, pre-/post-conditions and (nested) resource "
                  "destruction after field updates, resources conforming to DAGs of resource interfaces with their own "
                  "ResourceDestroyed events, on interpreter, VM and VM+peephole; the recording host's payloads "
                  "(type id, field names in payload order, exported values), log and outcome vs the model; direct "
                  "oracle on the Go payloads alone: declared type id and declared field names in declaration order. "
                  "The calculus leaves out: events of contracts / imported events, attachments' destroy "
                  "events (base), resource collections, dictionary / path / struct / "
                  "enum-typed parameters, dictionary-index default arguments.",
    "level_note": "proof (core calculus) + CC. Trusted: Lean kernel; the hand-written calculus (validated by the stream); "
                  "the generator's two renderers in harness/internal/l3sx; payload rendering harness/internal/l3run "
                  "(field order read from the JSON-Cadence encoding of the payload); the driver.",
    "assumptions": ["programs of the event calculus"],
    "trusted_base": ["hand-written model Verif.Model.Lang3.Events validated by stream events",
                     "generator + renderers harness/internal/l3sx/events.go", "harness/internal/l3run", "driver Drv/Events.lean"],
}
