#!/usr/bin/env python3
"""One-off generator of lean/Verif/Properties/C14.lean and C13.lean (static, committed files; not run by
./check).  The theorems are uniform — one per (type, operation) — so the files are produced from a
table.  Usage: python3 props/num2props_gen.py"""
import os
ROOT = os.path.dirname(os.path.dirname(os.path.abspath(__file__)))
W = (8, 16, 32, 64, 128, 256)

def c14():
    out = ["""/-
C14 — Bitwise operations and shifts follow two's-complement semantics.

For every integer type T (Int8..Int256, UInt8..UInt256, Word8..Word256, Int, UInt) the *generated*
definitions `Verif.Gen.NumGo.<T>Value.Bitwise{And,Or,Xor,LeftShift,RightShift}` (regenerated from
interpreter/value_*.go on every run) equal the specification of `Verif.Spec.ArithBits` on all operands
of the type:
* `& | ^` = the operation on the n-bit two's-complement patterns of the operands, read back as a value
  of the type (for Int / UInt: at *every* width that holds both operands);
* `a << k` = `a * 2^k` reduced to the width (exact for Int / UInt), `a >> k` = `⌊a / 2^k⌋`, for every
  shift amount `k ≥ 0` of the type — no bound on `k`; `k < 0` is the negative-shift error; Int / UInt
  fail with overflow exactly when `k ≥ 2^64`.
Only statements and their final proofs live here; lemmas are in Verif.Proofs.ArithBits.
-/
import Verif.Proofs.ArithBits
set_option linter.unusedVariables false
namespace Verif.Properties.C14
open Verif.Model.Num Verif.Spec.Arith Verif.Spec.ArithBits Verif.Gen.NumGo Verif.Proofs.ArithBits
"""]
    n = 0
    BIT = [("BitwiseAnd", "and", ".1"), ("BitwiseOr", "or", ".2.1"), ("BitwiseXor", "xor", ".2.2")]
    for fam, lfam, signed in (("Int", "int", True), ("UInt", "uint", False), ("Word", "word", False)):
        for w in W:
            T, t = f"{fam}{w}", f"(.{lfam} {w})"
            big = w > 64
            out.append(f"/-! ### {T} -/\n")
            hyps = f"(ha : inRange {t} a) (hb : inRange {t} b)"
            for m, o, proj in BIT:
                core = (f"bitop_signed {w} (by decide) a b ha hb" if signed
                        else f"bitop_unsigned {w} a b ha.1 ha.2 hb.1 hb.2")
                out.append(f"theorem C14_{T}_{o} (a b : Int) {hyps} :\n"
                           f"    {T}Value.{m} a b = specBitop {t} .{o} a b := by\n"
                           f"  unfold {T}Value.{m}; exact congrArg Except.ok ({core}){proj}\n")
                n += 1
            hk = f"(ha : inRange {t} a) (hk : inRange {t} k)"
            words = w // 64
            # <<
            if big and signed:
                prf = (f"  unfold {T}Value.BitwiseLeftShift specShl\n"
                       f"  exact shl_big_s {w} {words} _ {w} (by decide) (by decide) (by decide) (by decide) (by decide) a k\n")
            elif big:
                prf = (f"  unfold {T}Value.BitwiseLeftShift specShl\n"
                       f"  exact shl_big_u {w} {words} {w} (by decide) (by decide) (by decide) a k ha.1\n")
            elif signed:
                prf = (f"  unfold {T}Value.BitwiseLeftShift specShl\n"
                       f"  by_cases h : k < 0\n  · rw [if_pos h, if_pos h]\n"
                       f"  · rw [if_neg h, if_neg h]; exact congrArg Except.ok (shl_native_s {w} (by decide) a k (by omega))\n")
            else:
                prf = (f"  unfold {T}Value.BitwiseLeftShift specShl\n"
                       f"  rw [if_neg (by have := hk.1; omega)]; exact congrArg Except.ok (shl_native_u {w} a k hk.1)\n")
            out.append(f"theorem C14_{T}_shl (a k : Int) {hk} :\n"
                       f"    {T}Value.BitwiseLeftShift a k = specShl {t} a k := by\n{prf}")
            n += 1
            # >>
            r = f"have r := inRange_wide {t} {w} rfl a ha\n"
            if big and signed:
                prf = (f"  {r}  unfold {T}Value.BitwiseRightShift specShr\n"
                       f"  exact shr_big {w} (by decide) a k r.1 r.2\n")
            elif big:
                prf = (f"  {r}  unfold {T}Value.BitwiseRightShift specShr\n"
                       f"  exact shr_big_u {w} (by decide) a k ha.1 r.2\n")
            elif signed:
                prf = (f"  {r}  unfold {T}Value.BitwiseRightShift specShr\n"
                       f"  by_cases h : k < 0\n  · rw [if_pos h, if_pos h]\n"
                       f"  · rw [if_neg h, if_neg h]; exact congrArg Except.ok (shr_native {w} a k (by omega) r.1 r.2)\n")
            else:
                prf = (f"  {r}  unfold {T}Value.BitwiseRightShift specShr\n"
                       f"  rw [if_neg (by have := hk.1; omega)]; exact congrArg Except.ok (shr_native {w} a k hk.1 r.1 r.2)\n")
            out.append(f"theorem C14_{T}_shr (a k : Int) {hk} :\n"
                       f"    {T}Value.BitwiseRightShift a k = specShr {t} a k := by\n{prf}")
            n += 1
    # unbounded types
    out.append("/-! ### Int (unbounded): the bit operations at every width that holds both operands -/\n")
    for m, o, proj in BIT:
        out.append(f"theorem C14_Int_{o} (n : Nat) (hn : 0 < n) (a b : Int) (ha : inRange (.int n) a) (hb : inRange (.int n) b) :\n"
                   f"    IntValue.{m} a b = .ok (bitopAt true n .{o} a b) := by\n"
                   f"  unfold IntValue.{m}; exact congrArg Except.ok (bitop_signed n hn a b ha hb){proj}\n")
        out.append(f"/-- … in particular the executable spec used by the driver -/\n"
                   f"theorem C14_Int_{o}_spec (a b : Int) : IntValue.{m} a b = specBitop .bigInt .{o} a b := by\n"
                   f"  have f := widthFor_fits a b\n"
                   f"  exact C14_Int_{o} _ f.1 a b f.2.1 f.2.2\n")
        n += 2
    out.append("theorem C14_Int_shl (a k : Int) : IntValue.BitwiseLeftShift a k = specShl .bigInt a k := by\n"
               "  unfold IntValue.BitwiseLeftShift specShl; exact shl_unbounded a k\n")
    out.append("theorem C14_Int_shr (a k : Int) : IntValue.BitwiseRightShift a k = specShr .bigInt a k := by\n"
               "  unfold IntValue.BitwiseRightShift specShr; exact shr_unbounded a k\n")
    n += 2
    out.append("/-! ### UInt (unbounded above) -/\n")
    for m, o, proj in BIT:
        out.append(f"theorem C14_UInt_{o} (n : Nat) (a b : Int) (ha : inRange (.uint n) a) (hb : inRange (.uint n) b) :\n"
                   f"    UIntValue.{m} a b = .ok (bitopAt false n .{o} a b) := by\n"
                   f"  unfold UIntValue.{m}; exact congrArg Except.ok (bitop_unsigned n a b ha.1 ha.2 hb.1 hb.2){proj}\n")
        out.append(f"theorem C14_UInt_{o}_spec (a b : Int) (ha : inRange .bigUInt a) (hb : inRange .bigUInt b) :\n"
                   f"    UIntValue.{m} a b = specBitop .bigUInt .{o} a b := by\n"
                   f"  have f := widthFor_fits_u a b ha hb\n"
                   f"  exact C14_UInt_{o} _ a b f.1 f.2\n")
        n += 2
    out.append("theorem C14_UInt_shl (a k : Int) : UIntValue.BitwiseLeftShift a k = specShl .bigUInt a k := by\n"
               "  unfold UIntValue.BitwiseLeftShift specShl; exact shl_unbounded a k\n")
    out.append("theorem C14_UInt_shr (a k : Int) : UIntValue.BitwiseRightShift a k = specShr .bigUInt a k := by\n"
               "  unfold UIntValue.BitwiseRightShift specShr; exact shr_unbounded a k\n")
    n += 2
    out.append("""/-! ### The driver's executable shift specs are the specs -/

theorem C14_specShlExec_eq (T : Ty) (a k : Int) : specShlExec T a k = specShl T a k :=
  specShlExec_eq T a k

theorem C14_specShrExec_eq (T : Ty) (a k : Int) (ha : inRange T a) : specShrExec T a k = specShr T a k :=
  specShrExec_eq T a k ha

/-! ### Witnesses of the two defects repaired in /repo by f845962 (now theorems of the fixed code) -/

theorem C14_fixed_shl_sign : Int128Value.BitwiseLeftShift 1 7 = .ok 128 ∧ Int128Value.BitwiseLeftShift 255 0 = .ok 255 ∧
    Int256Value.BitwiseLeftShift 1 15 = .ok 32768 := by decide

theorem C14_fixed_shr_huge : Int128Value.BitwiseRightShift (-1) (2 ^ 64) = .ok (-1) ∧
    Int256Value.BitwiseRightShift (-5) (2 ^ 64 + 1) = .ok (-1) := by decide

/-! ### Non-vacuity: hypotheses satisfiable, every branch of the specs reached -/

example : inRange (.int 8) (-128) ∧ inRange (.int 8) 127 ∧ Int8Value.BitwiseAnd (-128) 127 = .ok 0 ∧
    Int8Value.BitwiseOr (-128) 127 = .ok (-1) ∧ Int8Value.BitwiseXor (-3) 5 = .ok (-8) := by decide
example : specBitop (.int 8) .xor (-3) 5 = .ok (-8) ∧ specBitop (.uint 8) .or 200 100 = .ok 236 := by decide
example : Int8Value.BitwiseLeftShift 65 1 = .ok (-126) ∧ specShl (.int 8) 65 1 = .ok (-126) := by decide
example : Int8Value.BitwiseLeftShift 1 (-1) = .error .negativeShift ∧ Int8Value.BitwiseRightShift (-128) 9 = .ok (-1) := by decide
example : UInt8Value.BitwiseLeftShift 255 9 = .ok 0 ∧ Word8Value.BitwiseRightShift 255 7 = .ok 1 := by decide
example : Int128Value.BitwiseLeftShift (-1) 127 = .ok (-(2 ^ 127)) ∧ Int128Value.BitwiseLeftShift 3 (2 ^ 64) = .ok 0 := by decide
example : IntValue.BitwiseLeftShift 1 (2 ^ 64) = .error .overflow ∧ IntValue.BitwiseRightShift (-7) 1 = .ok (-4) := by decide
example : specBitop .bigInt .and (-(2 ^ 70)) (2 ^ 70 + 5) = .ok (2 ^ 70) := by decide

end Verif.Properties.C14
""")
    n += 4
    open(os.path.join(ROOT, "lean/Verif/Properties/C14.lean"), "w").write("\n".join(out))
    return n

def c13():
    SAT = [("SaturatingPlus", "satadd", "add"), ("SaturatingMinus", "satsub", "sub"),
           ("SaturatingMul", "satmul", "mul"), ("SaturatingDiv", "satdiv", "div")]
    out = ["""/-
C13 — Saturating arithmetic clamps to the type's range.

For every integer type T and every saturating member that Cadence declares for it (sema's
SaturatingArithmeticSupport table: Int8..Int256 all four, UInt8..UInt256 add / subtract / multiply,
UInt subtract; Int and the Word types declare none — the `sat` stream checks that table against the
checker) the *generated* definition `Verif.Gen.NumGo.<T>Value.Saturating<Op>` (regenerated from
interpreter/value_*.go on every run) equals `Verif.Spec.Arith.specSaturating`: the exact result
(truncated division) clamped to [min T, max T]; the only error is division by zero — never
overflow / underflow, never a Go run-time panic.
Only statements and their final proofs live here; tactics and lemmas are in Verif.Proofs.ArithSat.
-/
import Verif.Proofs.ArithSat
set_option linter.unusedVariables false
namespace Verif.Properties.C13
open Verif.Model.Num Verif.Spec.Arith Verif.Gen.NumGo Verif.Proofs.Arith Verif.Proofs.ArithSat
"""]
    n = 0
    def emit(T, t, m, th, o, hi, lo):
        nonlocal n
        tac = {"add": "sat_arith", "sub": "sat_arith", "div": "sat_div a b", "mul": f"sat_mul a b ({hi}) ({lo})"}[o]
        out.append(f"theorem C13_{T}_{th} (a b : Int) (ha : inRange {t} a) (hb : inRange {t} b) :\n"
                   f"    {T}Value.{m} a b = specSaturating {t} .{o} a b := by\n"
                   f"  unfold {T}Value.{m}; {tac}\n")
        n += 1
    for w in W:
        out.append(f"/-! ### Int{w} -/\n")
        for m, th, o in SAT:
            emit(f"Int{w}", f"(.int {w})", m, th, o, 2 ** (w - 1) - 1, -2 ** (w - 1))
    for w in W:
        out.append(f"/-! ### UInt{w} (declares no saturatingDivide) -/\n")
        for m, th, o in SAT[:3]:
            emit(f"UInt{w}", f"(.uint {w})", m, th, o, 2 ** w - 1, 0)
    out.append("/-! ### UInt (declares saturatingSubtract only) -/\n")
    emit("UInt", ".bigUInt", "SaturatingMinus", "satsub", "sub", 0, 0)
    out.append("""/-! ### The spec: only division by zero fails; the result is a value of the type; in-range results are exact -/

theorem C13_only_divZero (T : Ty) (op : Op) (a b : Int) (e : NumErr) (h : specSaturating T op a b = .error e) :
    e = .divZero ∧ b = 0 ∧ op.divides = true := by
  unfold specSaturating at h
  split at h
  · rename_i hc; cases h; exact ⟨rfl, hc.2, hc.1⟩
  · cases h

theorem C13_result_inRange (T : Ty) (hT : ∀ l h, T.lo = some l → T.hi = some h → l ≤ h) (op : Op) (a b r : Int)
    (h : specSaturating T op a b = .ok r) : inRange T r := by
  unfold specSaturating at h
  split at h
  · cases h
  · cases h; exact clamp_inRange T hT _

theorem C13_exact_when_representable (T : Ty) (op : Op) (a b : Int) (hz : ¬ (op.divides ∧ b = 0))
    (h : inRange T (exact op a b)) : specSaturating T op a b = .ok (exact op a b) := by
  unfold specSaturating
  rw [if_neg hz, clamp_of_inRange T _ h]

/-! ### The Go methods behind members that no type declares (unreachable from Cadence programs): a zero
    divisor yields a nil value, not the division-by-zero error (a deferred recover() swallows the panic) -/

theorem C13_unreachable_satdiv_nil_witness : UInt8Value.SaturatingDiv 1 0 = .error .nilValue ∧
    UInt256Value.SaturatingDiv 1 0 = .error .nilValue ∧ UIntValue.SaturatingDiv 1 0 = .error .nilValue ∧
    IntValue.SaturatingDiv 1 0 = .error .nilValue := by decide

/-! ### Non-vacuity -/

example : inRange (.int 8) 127 ∧ Int8Value.SaturatingPlus 127 1 = .ok 127 ∧ Int8Value.SaturatingMinus (-128) 1 = .ok (-128) := by decide
example : Int8Value.SaturatingDiv (-128) (-1) = .ok 127 ∧ Int8Value.SaturatingDiv 5 0 = .error .divZero := by decide
example : Int64Value.SaturatingMul (-9223372036854775808) (-1) = .ok 9223372036854775807 := by decide
example : UInt8Value.SaturatingMinus 3 4 = .ok 0 ∧ UInt8Value.SaturatingMul 16 16 = .ok 255 ∧ UIntValue.SaturatingMinus 3 4 = .ok 0 := by decide
example : Int256Value.SaturatingMul (2 ^ 255 - 1) 2 = .ok (2 ^ 255 - 1) ∧ specSaturating (.int 256) .mul (2 ^ 255 - 1) 2 = .ok (2 ^ 255 - 1) := by decide
example : ∀ l h, (Ty.int 8).lo = some l → (Ty.int 8).hi = some h → l ≤ h := by intro l h hl hh; cases hl; cases hh; decide

end Verif.Properties.C13
""")
    n += 4
    open(os.path.join(ROOT, "lean/Verif/Properties/C13.lean"), "w").write("\n".join(out))
    return n

if __name__ == "__main__":
    print("C14:", c14(), "theorems")
    print("C13:", c13(), "theorems")
