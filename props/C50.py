PROP = {
    "id": "C50",
    "theorem_modules": ["Verif.Properties.C50"],
    "min_theorems": 3,
    "required_theorems": [
        "Verif.Properties.C50.read_iff",
        "Verif.Properties.C50.monotone",
        "Verif.Properties.C50.write_iff",
    ],
    "streams": [
        {"name": "access", "driver": "drv_access",
         "quick": {"n": 1}, "thorough": {"n": 1, "seeds": 1}},
    ],
    "exhaustive": True,
    "technique": "Lean 4 proof over a port of the checker's member-access rules vs a declarative scope rule + exhaustive "
                 "correspondence stream over modifiers x containers x sites x reference authorizations",
    "level_text": "Model: port of isReadableMember / isWriteableMember / containingContractKindedType / "
                  "LocationsInSameAccount / the access part of visitMemberExpressionAssignment in AccessCheckModeStrict, "
                  "entitlement permission = M-AUTH permits. Theorems for all sites and members: read_iff (the port accepts "
                  "a read or call exactly when the declarative rule permits it: self = inside the declaring composite, "
                  "contract = inside the nearest enclosing contract, account = same account, all = everyone, entitlement "
                  "= owned value or every holder set of the reference's authorization satisfies the requirement), "
                  "monotone (self <= contract <= account <= all as sets of sites), write_iff (assignment accepted exactly "
                  "inside the declaring composite and, for a let field, only as the initializing assignment). Tie: stream "
                  "`access`, exhaustive over 7 modifiers x 3 containers (contract, struct, resource) x field var/let/function "
                  "x 8 sites (same contract / struct / resource, sibling contract and nested struct in the same account, "
                  "contract in another account, script, transaction) x 6 ways of holding the value (owned, 5 reference "
                  "authorizations), reads and assignments, plus initializer contexts; the real checker's error multiset is "
                  "compared with the port and judged by an independently written executable reading of the rule.",
    "level_note": "proof (code-shaped model) + CC (exhaustive over the universe). Trusted: Lean kernel; the port (validated "
                  "by the stream); the driver's executable spec specB is an independent transcription of "
                  "Verif.Spec.AccessSpec, not proved equal to it. Config.MemberAccountAccessHandler (runtime) and "
                  "entitlement-mapping access are not exercised; interfaces and attachments are outside the scope model.",
    "assumptions": ["AccessCheckModeStrict", "MemberAccountAccessHandler = nil",
                    "entitlement requirements non-empty; reference authorizations unauthorized or non-empty sets"],
    "trusted_base": ["hand-written port Verif.Model.AccessCheck validated by stream access",
                     "Go harness cmd/vharness/stream_access.go", "driver Drv/Access.lean"],
}
