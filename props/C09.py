PROP = {
    "id": "C09",
    "theorem_modules": ["Verif.Properties.C09"],
    "min_theorems": 13,
    "required_theorems": [
        "Verif.Properties.C09.cast_iff_instance_partial",
        "Verif.Properties.C09.cast_result_is_value_partial",
        "Verif.Properties.C09.ref_witness",
        "Verif.Properties.C09.nested_auth_witness",
        "Verif.Properties.C09.nil_cast_witness",
        "Verif.Properties.C09.force_iff",
        "Verif.Properties.C09.unwrap_rule",
        "Verif.Properties.C09.unwrap_rule_any",
        "Verif.Properties.C09.cast_result_type",
        "Verif.Properties.C09.engines_agree_partial",
        "Verif.Properties.C09.engines_agree_kindstable_partial",
        "Verif.Properties.C09.nil_anyresource_witness",
        "Verif.Properties.C09.force_iff_vm",
    ],
    "gen": [["vtool", "gen-rules"]],
    "tool_files": ["tool_rules.go"],
    "streams": [
        {"name": "cast", "driver": "drv_cast",
         "quick": {"n": 1}, "thorough": {"n": 1, "seeds": 1}},
    ],
    "exhaustive": True,
    "technique": "Lean 4 proof over a code-shaped model of casting / isInstance / getType on top of the rule-interpreted subtype relation + correspondence stream (scripts, both engines)",
    "level_text": "Lean theorems about ports of VisitCastingExpression / castValueAndValueType / Unbox / BoxOptional / the conversion arms of "
                  "convert a cast reaches (applyTargetTypeAuthorization, entitlement stripping towards AnyStruct) / IsInstance / ValueGetType / "
                  "MetaTypeIsSubType and of member forwarding through references, over the subtype relation interpreted from rules.yaml (C08): "
                  "for every value that is neither optional nor an ephemeral reference, `as?` succeeds iff isInstance iff the dynamic type is a "
                  "subtype of the target iff getType().isSubtype, and the result is the converted, boxed value (cast_iff_instance_partial); it is "
                  "the value itself for reference-free types and non-optional targets (cast_result_is_value_partial); `as!` fails exactly when "
                  "`as?` has no result (force_iff); optionals are unwrapped at every depth unless the target is AnyStruct/AnyResource or an optional "
                  "of them (unwrap_rule, unwrap_rule_any), and the value a successful cast yields is the original innermost value with max(n, m) "
                  "optional layers for AnyStruct/AnyResource targets and m layers otherwise, for every non-nil value of a reference-free type, "
                  "resources included (cast_result_type; its run-time type is specResultType, the rule stated without the ported code); the VM's "
                  "casts (run-time relation on static types) equal the interpreter's (checker's relation) whenever the value the cast looks at is "
                  "not of an optional type, or is of a well-formed kind-stable Any-free type (engines_agree_partial, "
                  "engines_agree_kindstable_partial, force_iff_vm). Tied to /repo by the `cast` stream: (1) the full cross product of 61 values "
                  "(numbers, strings, paths, types, arrays, dictionaries, composites, enums, functions, capabilities, optionals up to three layers deep, ephemeral "
                  "references with every authorization shape incl. two-entitlement conjunctions and disjunctions, arrays / dictionaries / "
                  "optionals of such references) x 98 target types (incl. overlapping two- and three-entitlement sets E,F / E,G / F,G / E|F / "
                  "E|G at top level and nested) x both engines, two scripts per pair (`as?`+isInstance+getType+the result's run-time type, and "
                  "`as!`); (2) 26 resource values (plain, up to three optional layers, nil, statically typed as interface / AnyResource, nested "
                  "in arrays and dictionaries) x 30 resource target types (AnyResource with 0-3 optional layers, R, R?, {RI}, containers ...), "
                  "each operation running both engines: the script creates the resource, asks isInstance / getType, moves it into `as?` (second "
                  "script: `as!`), asks the result for getType().identifier and isInstance of 9 probe types, destroys it. Every line is compared "
                  "with the model (interpreter and VM variants) and judged directly: as! vs as?, as? = isInstance = getType().isSubtype for "
                  "non-optional values, as! and as? results alike, the result's run-time type = specResultType (the optional rule), both "
                  "engines' observations identical.",
    "level_note": "Partial: ephemeral references are excluded from the equivalence (known finding isinstance-forwarded-through-reference); "
                  "'yields the original value' holds only for reference-free types (known finding cast-narrows-nested-authorizations); a nil value "
                  "cast to an optional type succeeds with nil (known finding nil-cast-to-optional-observed-as-nil); the engines disagree on a nil "
                  "resource optional cast to AnyResource (known finding nil-cast-to-anyresource-engines-disagree). Storage references and their "
                  "borrow-type replacement rule, the move semantics of resource casts (resources are values with a resource-kinded type), "
                  "attachments and the numeric arms of convert are outside the model; values carry their static type, contents are opaque. The "
                  "VM differs from the interpreter in the model only by the relation it asks (castFailableVM / castForceVM).",
    "assumptions": ["referents of ephemeral references contain no nested references (StaticType() of a reference rewrites nested authorizations)",
                    "fuel of the rule interpreter suffices (validated by the stream)"],
    "trusted_base": ["hand-written port Verif.Model.Cast validated by stream cast", "rule interpreter Verif.Model.Types.Subtype (C08)",
                     "Go harness cmd/vharness/stream_cast.go", "driver Drv/Cast.lean"],
}
