PROP = {
    "id": "C09",
    "theorem_modules": ["Verif.Properties.C09"],
    "min_theorems": 8,
    "required_theorems": [
        "Verif.Properties.C09.cast_iff_instance_partial",
        "Verif.Properties.C09.cast_result_is_value_partial",
        "Verif.Properties.C09.ref_witness",
        "Verif.Properties.C09.nested_auth_witness",
        "Verif.Properties.C09.nil_cast_witness",
        "Verif.Properties.C09.force_iff",
        "Verif.Properties.C09.unwrap_rule",
        "Verif.Properties.C09.unwrap_rule_any",
    ],
    "gen": [["vtool", "gen-rules"]],
    "tool_files": ["tool_rules.go"],
    "streams": [
        {"name": "cast", "driver": "drv_cast",
         "quick": {"n": 1}, "thorough": {"n": 1, "seeds": 1}},
    ],
    "exhaustive": True,
    "technique": "Lean 4 proof over a code-shaped model of casting / isInstance / getType on top of the rule-interpreted subtype relation + correspondence stream (scripts, both engines)",
    "level_text": "Lean theorems about ports of VisitCastingExpression / castValueAndValueType / Unbox / BoxOptional / the conversion arms of "
                  "convert a cast reaches (applyTargetTypeAuthorization, entitlement stripping towards AnyStruct) / IsInstance / ValueGetType / "
                  "MetaTypeIsSubType and of member forwarding through references, over the subtype relation interpreted from rules.yaml (C08): "
                  "for every value that is neither optional nor an ephemeral reference, `as?` succeeds iff isInstance iff the dynamic type is a "
                  "subtype of the target iff getType().isSubtype, and the result is the converted, boxed value (cast_iff_instance_partial); it is "
                  "the value itself for reference-free types and non-optional targets (cast_result_is_value_partial); `as!` fails exactly when "
                  "`as?` has no result (force_iff); optionals are unwrapped at every depth unless the target is AnyStruct/AnyResource or an optional "
                  "of them (unwrap_rule, unwrap_rule_any). Tied to /repo by the `cast` stream: the full cross product of 43 values (numbers, strings, "
                  "paths, types, arrays, dictionaries, composites, enums, functions, capabilities, nested optionals, ephemeral references with "
                  "every authorization shape, arrays of references) x 76 target types x both engines, two scripts per pair (`as?`+isInstance+"
                  "getType, and `as!`), compared with the model and judged directly (the four observations must be mutually consistent).",
    "level_note": "Partial: ephemeral references are excluded from the equivalence (known finding isinstance-forwarded-through-reference); "
                  "'yields the original value' holds only for reference-free types (known finding cast-narrows-nested-authorizations); a nil value "
                  "cast to an optional type succeeds with nil (known finding nil-cast-to-optional-observed-as-nil). Storage references and their "
                  "borrow-type replacement rule, resources (move semantics of casts), attachments and the numeric arms of convert are outside the "
                  "model; values carry their static type, contents are opaque. The VM is represented by the same model (opFailableCast/opForceCast "
                  "are compared through the stream only).",
    "assumptions": ["referents of ephemeral references contain no nested references (StaticType() of a reference rewrites nested authorizations)",
                    "fuel of the rule interpreter suffices (validated by the stream)"],
    "trusted_base": ["hand-written port Verif.Model.Cast validated by stream cast", "rule interpreter Verif.Model.Types.Subtype (C08)",
                     "Go harness cmd/vharness/stream_cast.go", "driver Drv/Cast.lean"],
}
