PROP = {
    "id": "C30",
    "theorem_modules": ["Verif.Properties.C30"],
    "min_theorems": 14,
    "required_theorems": [
        "Verif.Properties.C30.meterfacts_ok",
        "Verif.Properties.C30.terminates",
        "Verif.Properties.C30.uncharged_loop_never_stops",
        "Verif.Properties.C30.depth",
        "Verif.Properties.C30.depth_engines_agree",
        "Verif.Properties.C30.sequential_calls_do_not_accumulate",
        "Verif.Properties.C30.vm_destroy_event_frames_witness",
    ],
    "gen": [["vtool", "gen-meterfacts"]],
    "tool_files": ["tool_cachefacts.go", "tool_meterfacts.go"],
    "streams": [
        {"name": "bounded", "driver": "drv_bounded",
         "quick": {"n": 28}, "thorough": {"n": 280, "seeds": 2},
         "timeout": {"quick": 5400, "thorough": 14000}},   # (upper limits: a hang verdict is re-confirmed alone with 3x the bound)
    ],
    "exhaustive": False,
    "technique": "Lean 4 proof over an abstract metered machine + fact extraction (go/types) of the metering calls on every loop "
                 "back-edge / statement / invocation path of interpreter, compiler and VM against pinned expectations + "
                 "re-execution stream of non-terminating and ever-growing programs under computation, memory, depth and "
                 "wall-clock limits in both engines",
    "level_text": "proof (abstract machine) + FX + CC, partial (the μCadence-instrumented evaluator of DESIGN §6 C30 is not built; "
                  "this is the engine-independent part). Lean: a machine step is charged (cost >= 1) or uncharged with a ranking "
                  "bounded by c that decreases on uncharged steps (at most c consecutive uncharged steps); terminates — for every "
                  "such machine, state and finite limit L the metered run stops within (c+1)*(L+1) steps with ok, a user error or "
                  "the limit error (fuel derived, not assumed); uncharged_loop_never_stops / charged_loop_hits_limit — the discipline "
                  "is necessary and sufficient on the one-state loop; depth / depth_never_exceeds_limit — the call-depth counter "
                  "rejects exactly the recursion deeper than the limit and never exceeds it; depth_checks_agree; "
                  "depth_engines_agree — for every configured runtime.Config.StackDepthLimit and every n, recursion n deep "
                  "below the entry point succeeds in the interpreter iff it succeeds in the VM, iff n <= the effective limit "
                  "(full, after the fixes 4e6bf8c: the VM environment applies the configured limit, and bc0b586: its limit "
                  "is the configured one + 1 for the entry point's frame; vm_default_limit_ignores_configuration_witness / "
                  "vm_same_limit_off_by_one_witness show on the model why each fix is needed); "
                  "sequential_calls_do_not_accumulate — k >= 1 invocations made one after the other, base invocations below the "
                  "entry point, succeed in both engines iff base + 1 <= the effective limit and leave the depth unchanged, whatever k "
                  "is (unbalanced_return_accumulates_witness: a lost return report makes 4 sequential calls fail under limit 3); "
                  "vm_destroy_event_frames_witness / destroy_event_engines_agree_partial — the known finding "
                  "vm-destroy-event-counts-call-frames and agreement outside its region. "
                  "FX: gen-meterfacts — the Go `for` loop of VisitWhileStatement charges Loop + Statement, "
                  "visitForStatementBody (per element) charges Loop, every statement / invocation charges; the compiler emits "
                  "InstructionLoop after the test jump and before body and back-edge in both loop forms, VM.run dispatches it to "
                  "opLoop which charges Loop, invokeFunction charges FunctionInvocation; both depth checks raise "
                  "CallStackLimitExceededError; the statements of newStackDepthLimiter / vmStackDepthLimit (how each engine derives "
                  "its limit from the configuration: the model's interpEffectiveLimit / vmEffectiveLimit) and newVMConfig's use of it; meterfacts_ok (decide) = pinned + every cycle charged. CC (supporting exploration): "
                  "stream bounded runs 28 families (endless while/for, loops over growing arrays / dictionaries / strings, doubling, "
                  "squaring big integers, mutual / closure / method / struct-init / resource-init recursion, deep value construction followed by printing, "
                  "export, type comparison, storage) in a fresh process each, both engines, under computation limit x memory "
                  "limit x a load-calibrated wall-clock bound (>= 240 s, 40x a timed reference run scaled by the limit) x 12 GB address space; violation = no stop within the bound, internal error, escaped "
                  "panic or crash; depth programs at limit-3..limit+5 under default and configured limits, as function / method / closure / "
                  "mutual recursion and inside a transaction, and through composite initializers (struct init constructing the struct, "
                 "resource init creating the resource with and without keeping the child / with a ResourceDestroyed event, "
                 "init -> method -> init; limits default / 10 / 50, limit-2 .. 5x limit), in both engines against the model; "
                 "seq operations: 3x the limit sequential invocations of 20 invocation forms (function, method, optional chaining on "
                 "non-nil struct / reference / resource / Void method and on nil, reference, closure, bound and unbound function "
                 "values, conditions, interface method, struct / resource constructor, create + destroy with event, log, toString, "
                 "append, conversion) without recursion, in the entry point, at depth limit - 1 and (Cadence functions) at depth "
                 "= limit, in both engines against spec and model. Recursion through destroy-triggered default-event evaluation "
                 "does not exist (default event arguments cannot contain invocations); the VM's two frames per event are the "
                 "known finding. A hang verdict (and a child "
                  "killed from outside) is reported only after the operation was re-run alone with 3x the bound.",
    "level_note": "Partial: that the real evaluators are instances of the disciplined machine is established only for the listed "
                  "loop / statement / invocation paths by the fact table (no model of the evaluator itself); Go-runtime stack "
                  "exhaustion by recursive Go code over deep values and built-ins with internal unmetered loops are outside the "
                  "theorem and reached only by the stream. Memory limits are enforced by the host's gauge (the harness's "
                  "recording gauge here).",
    "assumptions": ["call depth: the engines count the same thing only for invocations of Cadence functions — the interpreter "
                    "counts every invocation expression (also of native functions, and before the arguments are evaluated: "
                    "f(g(h(x))) is 3 deep), the VM counts call frames of compiled functions; the theorem and the stream are about "
                    "nested invocations of Cadence functions",
                    "the computation gauge's limit is finite and the memory gauge's limit is finite (hosts set both)",
                    "between two charges the evaluators execute straight-line Go code (bounded by the program size)"],
    "trusted_base": ["pinned expectation Verif.Spec.MeterFacts", "fact extractor cmd/vtool/tool_meterfacts.go (go/packages + go/types)",
                     "harness/internal/meterx, harness/internal/host", "driver Drv/Bounded.lean"],
}
