PROP = {
    "id": "C22",
    "theorem_modules": ["Verif.Properties.C22"],
    "min_theorems": 24,
    "required_theorems": [
        "Verif.Properties.C22.save_occupied_fails",
        "Verif.Properties.C22.load_semantics",
        "Verif.Properties.C22.copy_semantics",
        "Verif.Properties.C22.borrow_semantics",
        "Verif.Properties.C22.check_semantics",
        "Verif.Properties.C22.type_semantics",
        "Verif.Properties.C22.paths_exact",
        "Verif.Properties.C22.abort_noop",
        "Verif.Properties.C22.abort_erasable",
        "Verif.Properties.C22.commit_persists",
        "Verif.Properties.C22.subtype_trans",
        "Verif.Properties.C22.subtype_optional_rules",
        "Verif.Properties.C22.optional_resource_not_anystruct",
    ],
    "streams": [
        {"name": "store", "driver": "drv_store",
         "quick": {"n": 250}, "thorough": {"n": 4000, "seeds": 4},
         "timeout": {"quick": 300, "thorough": 1500}},
    ],
    "exhaustive": False,
    "technique": "Lean 4 proof about a spec machine (typed path-indexed map with transactional commit/abort) + "
                 "refinement testing of the real runtime against the machine on generated histories",
    "level_text": "Lean theorems about the spec machine Verif.Model.Store, for every store and every history (no bound): "
                  "save fails on an occupied path and otherwise binds exactly that path; load/copy/borrow return nil on an "
                  "empty path, fail when the stored value's dynamic type is not a subtype of T, otherwise return the value "
                  "(load empties exactly that path); check/type; storagePaths/forEachStored enumerate exactly the occupied "
                  "paths once each in every reachable store; an aborted transaction is a no-op and can be erased from any "
                  "history; commit persists (runHist (h1++h2) = run h2 from the state h1 committed; a commit boundary is "
                  "unobservable).  Tied to /repo by the `store` correspondence stream: generated histories over 3 accounts x "
                  "6 paths (16 value kinds: 9 non-optional, some(v) of Int / S / S2 / @R / @R2, some(some(Int)), nil; 21 "
                  "type arguments: the 14 non-optional ones, Int? S? AnyStruct? Int?? @R? @{RI}? @AnyResource?; super-, "
                  "sub- and unrelated types; aborts by overwrite, type mismatch and panic) are executed as Cadence transactions on the real runtime with a ledger that persists "
                  "between transactions, in the interpreter and in the VM, and every log line and outcome class is compared "
                  "with the machine; the value-kind x type-argument table (16 x 21 through check/type/copy/load, 16 x 14 through borrow: the "
                  "checker rejects references to optional types) is covered exhaustively in every run.",
    "level_note": "proof (spec machine) + CC: the theorems are about the machine, which is the specification; that the Go "
                  "implementation (interpreter.AccountStorage*, domain storage maps, Storage.Commit, atree) refines it is "
                  "shown only by refinement testing on the generated histories. The subtype relation is a 15-base-type table x optional depth "
                  "(validated exhaustively against the runtime by the stream for depths 0-2), not sema's full checker. "
                  "Known finding borrow-stored-nil-as-anyresource: on a stored nil, borrow<&AnyResource> (sema.IsSubType) "
                  "fails while check/load<@AnyResource> (IsSubTypeOfSemaType) accept.",
    "assumptions": ["type universe: Int String Bool Integer [Int] [AnyStruct] S S2:{I} {I} AnyStruct R R2:{RI} {RI} AnyResource, "
                    "each under any number of optional layers, and Never? (nil)",
                    "a loaded / copied value is observed by its log rendering, which does not show optional layers; the stored "
                    "dynamic type is observed by type(at:) and forEachStored",
                    "borrow is observed through one read of the borrowed reference immediately after the borrow"],
    "trusted_base": ["spec machine Verif.Model.Store (is the spec)", "Go harness cmd/vharness/stream_store.go (Cadence "
                     "generation from a typed template, log canonicalisation: location prefix stripped, path lists sorted)",
                     "driver Drv/Store.lean (rendering of machine observations)"],
}
