PROP = {
    "id": "C51",
    "theorem_modules": ["Verif.Properties.C51"],
    "min_theorems": 16,
    "required_theorems": ["Verif.Properties.C51.orderedmap_refines", "Verif.Properties.C51.bimap_refines", "Verif.Properties.C51.bimap_inverse", "Verif.Properties.C51.ist_invariant", "Verif.Properties.C51.ist_search_sound_complete", "Verif.Properties.C51.pset_refines", "Verif.Properties.C51.ist_searchAll_exact"],
    "streams": [
        {"name": "ds", "driver": "drv_ds",
         "quick": {"n": 1500}, "thorough": {"n": 12000, "seeds": 4}},
    ],
    "exhaustive": False,
    "technique": "Lean 4 proof over code-shaped models of the ordered map, bimap, persistent set and interval tree "
                 "(refinement of list/map/set/multiset specs for every operation sequence) + correspondence stream "
                 "on operation sequences",
    "level_text": "Lean theorems about code-shaped models of common/orderedmap, common/bimap, common/persistent and "
                  "common/intervalst, tied to /repo by the `ds` correspondence stream (operation sequences executed on "
                  "the real structures, compared with the model and, independently, with the spec).",
    "level_note": "Trusted: Lean kernel; the hand-written ports (validated by the stream); the harness and driver; Go's "
                  "built-in map is modelled as an association list.",
    "assumptions": ["Go built-in maps behave as finite maps", "keys are compared with ==, as for Go comparable types"],
    "trusted_base": ["hand-written ports Verif.Model.DS.* validated by stream ds",
                     "Go harness cmd/vharness/stream_ds.go", "driver Drv/Ds.lean"],
}
