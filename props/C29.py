PROP = {
    "id": "C29",
    "theorem_modules": ["Verif.Properties.C29"],
    "min_theorems": 5,
    "required_theorems": [
        "Verif.Properties.C29.import_sound",
        "Verif.Properties.C29.import_total",
    ],
    "streams": [
        {"name": "args", "driver": "drv_args",
         "quick": {"n": 2500}, "thorough": {"n": 40000, "seeds": 4}},
    ],
    "exhaustive": False,
    "technique": "Lean 4 proof over a code-shaped port of importValidatedArguments / valueImporter + correspondence stream through the real runtime (both engines)",
    "level_text": "TODO",
    "level_note": "TODO",
    "assumptions": [],
    "trusted_base": ["hand-written port Verif.Model.Import validated by stream args", "Go harness cmd/vharness/stream_args.go", "driver Drv/Args.lean"],
}
