PROP = {
    "id": "C29",
    "theorem_modules": ["Verif.Properties.C29"],
    "min_theorems": 9,
    "required_theorems": [
        "Verif.Properties.C29.import_sound",
        "Verif.Properties.C29.import_total",
        "Verif.Properties.C29.import_sound_deep",
        "Verif.Properties.C29.import_args_sound",
        "Verif.Properties.C29.import_args_total",
        "Verif.Properties.C29.import_args_count",
        "Verif.Properties.C29.importable_means_deep",
        "Verif.Properties.C29.conforms_means_deep",
    ],
    "streams": [
        {"name": "args", "driver": "drv_args",
         "quick": {"n": 2800}, "thorough": {"n": 40000, "seeds": 4}},
    ],
    "exhaustive": False,
    "technique": "Lean 4 proof over a code-shaped port of importValidatedArguments / valueImporter + correspondence stream through the real runtime (both engines)",
    "level_text": "Lean theorems about a code-shaped port of importValidatedArguments / valueImporter.importValue / IsImportable / "
                  "ConformsToStaticType, for every context (declarations, subtype relations, least-common-supertype function): an accepted "
                  "argument is importable, its run-time type is a subtype of the parameter type and it conforms to its static type "
                  "(import_sound), spelled out declaratively for every value nested at any depth (import_sound_deep: no capability / "
                  "non-importable composite anywhere, every element / key / value / field of a subtype of its declared type, exact field "
                  "sets, constant array sizes); every other argument is rejected with an invalid-argument user error, never an internal "
                  "error (import_total, import_args_total, import_args_count). Tied to /repo by the `args` stream: generated parameter "
                  "types x correctly typed / wrongly typed / partially wrong (nested element, missing / extra / renamed / repeated field, "
                  "wrong field type, wrong kind, wrong or unknown type ID, wrong enum raw type, optional level off by one, wrong constant "
                  "array size) / non-importable (resource, event, contract, function, capability) / undecodable JSON-CDC arguments, run "
                  "through runtime.ExecuteScript in both engines against a deployed contract; the script returns getType(), "
                  "isSubtype(of: T) and the argument itself; the driver compares acceptance, rejection stage, run-time type and the "
                  "exported value with the model, and judges Go's own output against the spec (user-error class; an accepted argument has no surviving composite whose "
                  "kind tag differs from its declaration's kind (Spec.Import.kindClash, judged on the encoded argument); reported type a subtype "
                  "by Go's and by the Lean relation; exported value importable and conforming at every depth) independently of the model's import.",
    "level_note": "Partial: the second sentence of the property (script results export to values that round-trip through JSON-CDC and "
                  "CCF) is a stated comment (export_roundtrips), exercised on the Go side only. Value algebra: numbers of all integer kinds, "
                  "Fix64/UFix64, strings, characters, bools, addresses, paths, optionals, variable/constant arrays, dictionaries, structs / "
                  "enums / resources / events with declared fields, type values, capabilities, functions, contracts; not InclusiveRange, "
                  "built-in composites (PublicKey, HashAlgorithm, ...), Fix128/UFix128, Bytes. The subtype relations and declarations are "
                  "parameters of the theorems; the driver instantiates them with C08's rule interpreter over the regenerated rules.yaml data "
                  "and a declaration table checked against the running checker (`decl` ops). sema.LeastCommonSuperType is ported for "
                  "homogeneous and numeric / path joins only; arguments whose import depends on another join are compared with the spec "
                  "only (SKIP lcs-not-ported, <1%). Arguments are JSON-CDC encoded (the CCF DecodeArgument path is not exercised: "
                  "internal/cdc fixes the decoder). Type IDs use address locations only (the test host's location resolver asserts "
                  "AddressLocation).",
    "assumptions": ["static type <-> sema type conversions are identities on the fragment (checked by C08's types stream)", "field names are distinct in a declaration"],
    "trusted_base": ["hand-written port Verif.Model.Import validated by stream args", "Go harness cmd/vharness/stream_args.go", "driver Drv/Args.lean"],
}
