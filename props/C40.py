PROP = {
    "id": "C40",
    "theorem_modules": ["Verif.Properties.C40"],
    "min_theorems": 10,
    "required_theorems": [
        "Verif.Properties.C40.int_value",
        "Verif.Properties.C40.int_range_iff",
        "Verif.Properties.C40.fix_value",
        "Verif.Properties.C40.fix_reject_iff",
        "Verif.Properties.C40.string_simple_escapes",
    ],
    "streams": [
        {"name": "lit", "driver": "drv_lit",
         "quick": {"n": 12000}, "thorough": {"n": 150000, "seeds": 3}},
    ],
    "exhaustive": False,
    "technique": "Lean 4 proof over ports of the lexer's number scanning, parseIntegerLiteral, parseFixedPointLiteral, "
                 "CheckIntegerLiteral / CheckFixedPointLiteral (+ fixedpoint.CheckRange, ScaleFractional, "
                 "ConvertToFixedPointBigInt) and parseStringLiteralContent + correspondence stream through the real "
                 "lexer, parser, checker and both engines",
    "level_text": "Lean theorems about a code-shaped model of literal handling: an integer literal in base 2/8/10/16 with any "
                  "inner underscores and leading zeros denotes sum d_i*base^i; CheckIntegerLiteral accepts exactly the type's "
                  "range; a fixed-point literal's raw value is exactly int + frac/10^scale, it is accepted iff scale <= the "
                  "type's scale and the value is within the type's bounds (all four fixed-point types), and is then built without "
                  "wrap-around; simple string escapes decode to the intended code points, other escape characters are errors "
                  "(Unicode escapes: instances only).  Tied to /repo by the `lit` stream: literals from the literal grammar for "
                  "all 20 integer and 4 fixed-point types (bounds +-1 in every base, underscores, leading zeros, hundreds of "
                  "digits, malformed forms) and string literals with random escapes / Unicode, run as scripts in both engines "
                  "(strings also through parser.ParseExpression, since evaluated strings are NFC-normalised); an independent "
                  "positional-value spec in the driver judges the Go answers.",
    "level_note": "Trusted: Lean kernel; the hand-written port (validated by the stream); harness and driver.  "
                  "big.Int.SetString is modelled by the Horner fold.  The type bounds are formulas in the model (2^n), tied to "
                  "sema's tables by the bound +-1 cases of the stream.  The general Unicode-escape theorem is not proved "
                  "(string_unicode_escape_partial has instances).  fixedpoint/parse.go (Fix64.fromString, JSON decoding) still "
                  "compares the unscaled fraction (outside C40; an existing test pins that behaviour).",
    "assumptions": ["a literal is the token the lexer produces for the text (lexing of prefixed literals proved, decimal "
                    "and fixed-point token extents validated by the stream)"],
    "trusted_base": ["hand-written port Verif.Model.Front.Literals validated by stream lit",
                     "Go harness cmd/vharness/stream_lit.go", "driver Drv/Lit.lean"],
}
