PROP = {
    "id": "C52",
    "theorem_modules": ["Verif.Properties.C52"],
    "min_theorems": 13,
    "required_theorems": [
        "Verif.Properties.C52.binary",
        "Verif.Properties.C52.args",
        "Verif.Properties.C52.array_dict_literals",
        "Verif.Properties.C52.and_",
        "Verif.Properties.C52.or_",
        "Verif.Properties.C52.nilcoalesce_partial",
        "Verif.Properties.C52.nilcoalesce_witness",
        "Verif.Properties.C52.conditional",
        "Verif.Properties.C52.optional_chain",
        "Verif.Properties.C52.assign_swap",
        "Verif.Properties.C52.vm_same_partial",
    ],
    "streams": [
        {"name": "evalorder", "driver": "drv_lang",
         "quick": {"n": 600}, "thorough": {"n": 8000, "seeds": 4}},
    ],
    "harness_files": ["stream_lang.go"],
    "exhaustive": False,
    "technique": "Lean 4 proof over a fuel-indexed big-step evaluator of a Cadence fragment (muCadence L0/L1) + "
                 "correspondence stream on the real parser's AST in both engines",
    "level_text": "Lean theorems, for all programs / expressions / states of the fragment, on the log trace of the model "
                  "evaluator: strict binary operators, argument lists, array and dictionary literals evaluate left to right, "
                  "each sub-expression exactly once; &&, ||, ??, the conditional operator and optional chaining evaluate "
                  "their right / member / argument part exactly when required; assignment and swap evaluate target "
                  "sub-expressions (base, index) before the value, swap left target then right target then the writes; "
                  "vm_same_partial: on the fragment of C34.simulation_call_partial (invocations in statement position, "
                  "logging functions, loops, recursion) the compiled program's log trace on the model stack machine is "
                  "identical to the evaluator's. "
                  "Tied to /repo by the stream `evalorder`: generated typed programs whose sub-expressions are calls to "
                  "logging functions with ids numbered in definition order, run on the interpreter, the VM and the VM with "
                  "peephole optimisation (a quarter of the programs have the body of `main` inside a function expression, an "
                  "inner function or a capturing closure: the only code for which /repo executes peephole-optimised "
                  "bytecode; those lie outside the model's fragment and are judged by the direct oracles only); the model runs on the S-expression of the AST + elaboration the runtime itself "
                  "produced; direct oracles independent of the model: engines agree, ids strictly increasing, no id twice, "
                  "unconditional ids exactly once.",
    "level_note": "proof (fragment L0/L1) + CC. Trusted: Lean kernel; the hand-written evaluator (validated by the stream); "
                  "the S-expression bridge harness/internal/sx; the driver.",
    "assumptions": ["programs of the fragment (DESIGN 4.1 L0 + arrays, dictionaries, structs with fields/init/methods, "
                    "optional chaining, swap, force-unwrap); no references, resources, closures, interfaces",
                    "method receivers are variables or temporaries (the model writes a mutated struct receiver back)"],
    "trusted_base": ["hand-written evaluator Verif.Model.Lang.Eval validated by stream evalorder",
                     "bridge harness/internal/sx (AST + elaboration -> S-expression)", "driver Drv/Lang.lean"],
}
