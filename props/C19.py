PROP = {
    "id": "C19",
    "theorem_modules": ["Verif.Properties.C19"],
    "min_theorems": 7,
    "required_theorems": [
        "Verif.Properties.C19.length_getKey",
        "Verif.Properties.C19.slice_bounds",
        "Verif.Properties.C19.hex_roundtrip",
        "Verif.Properties.C19.index_aligned",
        "Verif.Properties.C19.count",
        "Verif.Properties.C19.split_join",
    ],
    "streams": [
        {"name": "str", "driver": "drv_str",
         "quick": {"n": 12000}, "thorough": {"n": 150000, "seeds": 4}},
    ],
    "exhaustive": False,
    "technique": "Lean 4 proof over a byte-level port of interpreter/value_string.go, parametric in the segmentation, against a cluster-list spec + correspondence stream",
    "level_text": "Lean theorems for an arbitrary segmentation into non-empty clusters about a byte-level port of "
                  "interpreter/value_string.go: length / indexing (bounds exact), slice (fails exactly for from<0, to>length, "
                  "from>to; otherwise the bytes cut out are the clusters from..to-1), the aligned search = the cluster-list search "
                  "(the first cluster index at which whole clusters concatenate to the needle: soundness, completeness, "
                  "minimality), count and split = the greedy cluster-list specs, split then join gives back the bytes, hex round trip. "
                  "Tied to /repo by stream `str`: strings biased to combining marks, ZWJ emoji, skin tones, regional "
                  "indicators, Hangul syllables and jamo, CR LF, Indic conjuncts, prepend characters and empty strings; "
                  "needles from cluster-aligned and misaligned fragments, and self-overlapping needles (repeated regional "
                  "indicators, LF after CR LF, units after a prepend character, base+mark periods) in receivers whose first "
                  "byte-level occurrence is not on cluster boundaries while a later occurrence overlapping it is; concat "
                  "also after the character length of both operands was evaluated on the very same values (length, index, "
                  "slice) with operands whose junction merges into one cluster or composes under NFC, observing the "
                  "length, the iterated characters, equality with the literal and the full slice; every operation (length, index, slice, iteration, "
                  "utf8, index/contains/count, split, replaceAll, concat, join, literal normalisation, encodeHex/decodeHex, "
                  "ASCII toLower) through *interpreter.StringValue directly and through scripts in both engines; Go is "
                  "compared with the model and, independently, with an executable cluster-list spec (first aligned "
                  "occurrence, greedy count/split).",
    "level_note": "Partial: replaceAll = spec is correspondence-checked against the executable spec, not proved; count / "
                  "split are proved under the segmentation assumption SegStable (decided by the driver on every count / split "
                  "line: tag seg-stable). NFC (x/text) and UAX #29 segmentation "
                  "(rivo/uniseg) are parameters supplied by the harness: that the cluster sequence is the Unicode-correct "
                  "one is not decided here. toLower is compared for ASCII input only.",
    "assumptions": ["the segmentation of a substring cut at cluster boundaries is the corresponding sub-list of clusters "
                    "(slice re-segments v.Str[start:end]); exercised by every split/count/replace line",
                    "re-normalisation after concat/join is taken from the harness (x/text); replaceAll is generated with "
                    "replacement texts whose junctions are NFC-stable (the empty replacement only when no two clusters "
                    "of the receiver compose when put next to each other)"],
    "trusted_base": ["hand-written port Verif.Model.Str validated by stream str",
                     "Go harness cmd/vharness/stream_str.go", "driver Drv/Str.lean"],
}
