PROP = {
    "id": "C19",
    "theorem_modules": ["Verif.Properties.C19"],
    "min_theorems": 3,
    "required_theorems": [
        "Verif.Properties.C19.length_getKey",
        "Verif.Properties.C19.slice_bounds",
        "Verif.Properties.C19.hex_roundtrip",
    ],
    "streams": [
        {"name": "str", "driver": "drv_str",
         "quick": {"n": 12000}, "thorough": {"n": 150000, "seeds": 4}},
    ],
    "exhaustive": False,
    "technique": "Lean 4 proof over a byte-level port of interpreter/value_string.go, parametric in the segmentation, against a cluster-list spec + correspondence stream",
    "level_text": "TODO",
    "level_note": "TODO",
    "assumptions": [],
    "trusted_base": ["hand-written port Verif.Model.Str validated by stream str",
                     "Go harness cmd/vharness/stream_str.go", "driver Drv/Str.lean"],
}
