PROP = {
    "id": "C21",
    "theorem_modules": ["Verif.Properties.C21"],
    "min_theorems": 6,
    "required_theorems": [
        "Verif.Properties.C21.construct_iff",
        "Verif.Properties.C21.iterate",
        "Verif.Properties.C21.contains_iff",
    ],
    "streams": [
        {"name": "range", "driver": "drv_range",
         "quick": {"n": 5000}, "thorough": {"n": 60000, "seeds": 3}},
    ],
    "exhaustive": False,
    "technique": "Lean 4 proof over a port of InclusiveRange construction, the (fixed) iterator and contains, over a "
                 "self-contained spec of the element types' checked / wrapping addition + correspondence stream through "
                 "scripts in both engines",
    "level_text": "Lean theorems about a code-shaped model of interpreter/value_range.go and inclusive_range_iterator.go: "
                  "construction succeeds iff the step is non-zero and points towards the end (default step +-1, negative only "
                  "for signed types); iterating a valid range over any of the 20 integer element types yields exactly "
                  "start, start+step, ... not beyond end and ends without error, also when end is the type's minimum or "
                  "maximum and for wrapping Word types; contains(x) is true exactly for the members of that sequence and "
                  "involves no arithmetic that can fail.  Tied to /repo by the `range` stream: for-in loops and contains in "
                  "scripts, both engines, all 20 element types, start/end/step/needle from {min, max, 0, +-1, near-bounds, "
                  "random}, steps that do not reach end, wrong-direction and zero steps; an independent executable spec of the "
                  "arithmetic sequence in the driver judges the Go answers.",
    "level_note": "Trusted: Lean kernel; the hand-written port (validated by the stream); harness and driver.  The element "
                  "types' Plus is a small spec inside Model/Range.lean (checked for Int*/UInt*, wrapping for Word*), not the "
                  "translated NumGo definitions; the theorem shows Plus is only ever applied where the result is within "
                  "[start, end], so only its in-range behaviour matters.  ConvertInt / big.Int arithmetic is modelled by Int.",
    "assumptions": ["start, end (and step) are values of the element type (guaranteed by the checker)"],
    "trusted_base": ["hand-written port Verif.Model.Range validated by stream range",
                     "Go harness cmd/vharness/stream_range.go", "driver Drv/Range.lean"],
}
