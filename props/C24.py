PROP = {
    "id": "C24",
    "theorem_modules": ["Verif.Properties.C24"],
    "min_theorems": 11,
    "required_theorems": [
        "Verif.Properties.C24.commitsites_ok",
        "Verif.Properties.C24.cfg_from_source",
        "Verif.Properties.C24.script_no_write_partial",
        "Verif.Properties.C24.failed_no_write_partial",
        "Verif.Properties.C24.writes_after_run_partial",
        "Verif.Properties.C24.failed_write_witness",
        "Verif.Properties.C24.exec_accepted",
    ],
    "gen": [["vtool", "gen-commitsites"]],
    "tool_files": ["tool_commitsites.go"],
    "streams": [
        {"name": "exec", "driver": "drv_exec",
         "quick": {"n": 1500}, "thorough": {"n": 20000, "seeds": 3}},
    ],
    "exhaustive": False,
    "technique": "Lean 4 proof over a protocol acceptor of the executors + fact extraction of all commit / register-write "
                 "call sites (decide against a pinned table) + correspondence stream on a recording host",
    "level_text": "proof (protocol acceptor) + FX + CC. Lean theorems: for every host-visible trace accepted by the "
                  "executor-protocol automaton without a temporary commit, a script has no register write, a failed "
                  "execution has no register write, and every write follows the last program activity; the generative "
                  "executor model configured from the extracted call-site table only produces accepted traces. FX: all "
                  "call sites of commitStorage / Storage.Commit / CommitStorageTemporarily / FastCommit / Ledger.SetValue "
                  "/ RecordContractUpdate.. (go/types) equal the pinned table, no commit in script_executor.go, every "
                  "executor commit directly follows the error check of the run. CC stream `exec`: generated histories of "
                  "transactions, scripts and contract calls (successes; failures in prepare/pre/execute/post by panic, "
                  "assert, condition, index, overflow, force-nil, cast, type-mismatching load, computation limit cutting "
                  "at any point incl. the commit; contract add/update/remove; scripts mutating storage through "
                  "getAuthAccount) in both engines on the recording host; the trace is judged by the direct reading of "
                  "the property and by the acceptor.",
    "level_note": "The acceptor is a spec machine: the theorems are about traces, the tie to the Go executors is the FX "
                  "table plus the stream (assurance of the weaker half). Known finding write-via-temp-commit: "
                  "storage.used / storage.capacity / Account(payer:) flush the cache to the ledger mid-run (witness "
                  "theorems). UpdateAccountContractCode / RemoveAccountContractCode are host calls issued during the run "
                  "and are not register writes in the sense of the property. 'Those writes hold everything a later "
                  "transaction observes' (commit_complete) is exercised only through later steps of the same history "
                  "reading what earlier ones wrote, not proved.",
    "assumptions": ["the host is transactional for non-register state (contract code, slab indices, uuids): the recording "
                    "host discards them for failed executions and scripts, as the FVM does",
                    "program activity = computation metering of kind Statement/Loop/FunctionInvocation, events, logs, slab allocation"],
    "trusted_base": ["acceptor Verif.Model.Exec validated by stream exec", "fact extractor cmd/vtool/tool_commitsites.go (go/packages + go/types)",
                     "recording host harness/internal/host", "driver Drv/Exec.lean"],
}
