PROP = {
    "id": "C24",
    "theorem_modules": ["Verif.Properties.C24"],
    "min_theorems": 17,
    "required_theorems": [
        "Verif.Properties.C24.commitsites_ok",
        "Verif.Properties.C24.cfg_from_source",
        "Verif.Properties.C24.script_no_write_partial",
        "Verif.Properties.C24.failed_no_write_partial",
        "Verif.Properties.C24.writes_after_run_partial",
        "Verif.Properties.C24.failed_write_witness",
        "Verif.Properties.C24.exec_accepted",
        "Verif.Properties.C24.commit_complete",
        "Verif.Properties.C24.commit_complete_history",
        "Verif.Properties.C24.store_exec_accepted",
    ],
    "gen": [["vtool", "gen-commitsites"]],
    "tool_files": ["tool_commitsites.go"],
    "streams": [
        {"name": "exec", "driver": "drv_exec",
         "quick": {"n": 1500}, "thorough": {"n": 20000, "seeds": 3}},
    ],
    "exhaustive": False,
    "technique": "Lean 4 proof over a protocol acceptor of the executors + fact extraction of all commit / register-write "
                 "call sites (decide against a pinned table) + correspondence stream on a recording host",
    "level_text": "proof (protocol acceptor) + FX + CC. Lean theorems: for every host-visible trace accepted by the "
                  "executor-protocol automaton without a temporary commit, a script has no register write, a failed "
                  "execution has no register write, and every write follows the last program activity; the generative "
                  "executor model configured from the extracted call-site table only produces accepted traces. commit_complete "
                  "(executor with a register map, Verif.Model.ExecStore: fresh read cache + dirty entries per execution, commit "
                  "writes each dirty register once): for every ledger and program the ledger after a successful transaction's "
                  "writes equals its in-memory state at the end; commit_complete_history: for every history of successful / "
                  "failed transactions and scripts, every step reads exactly what it would read of one in-memory state that "
                  "only successful transactions update; store_exec_accepted ties that executor to the protocol acceptor; "
                  "stale_cache_witness shows the failure shape. FX: all "
                  "call sites of commitStorage / Storage.Commit / CommitStorageTemporarily / FastCommit / Ledger.SetValue "
                  "/ RecordContractUpdate.. (go/types) equal the pinned table, no commit in script_executor.go, every "
                  "executor commit directly follows the error check of the run. CC stream `exec`: generated histories of "
                  "transactions, scripts and contract calls (successes; failures in prepare/pre/execute/post by panic, "
                  "assert, condition, index, overflow, force-nil, cast, type-mismatching load, computation limit cutting "
                  "at any point incl. the commit; contract add/update/remove; scripts mutating storage through "
                  "getAuthAccount) in both engines on the recording host; the trace is judged by the direct reading of "
                  "the property and by the acceptor. Oracle stale-read-after-commit: every generated transaction and script "
                  "logs what it reads of each channel of the state (storage paths of 0x1 / 0x2, stored resources, contract "
                  "fields) at its start, every transaction again after its last change; the driver folds these over the "
                  "history with the reference register map (Probe): a step must read what the last committed step had in "
                  "memory at its end (about 2/3 of the histories make at least one such comparison). Memory-limit sweeps "
                  "(op memsweep, 16 per quick run: fresh-account, existing-account, two-signer, contract deployment and "
                  "contract-state transactions plus generated ones, both engines): the transaction is re-run under a memory "
                  "limit crossed exactly at one MeterMemory call, for each of the last 80 calls (the commit's own metering) "
                  "and 30 spread over the run; a failed run with a register write is write-in-failed-tx.",
    "level_note": "The acceptor is a spec machine: the theorems are about traces, the tie to the Go executors is the FX "
                  "table plus the stream (assurance of the weaker half). Known finding write-via-temp-commit: "
                  "storage.used / storage.capacity / Account(payer:) flush the cache to the ledger mid-run (witness "
                  "theorems). UpdateAccountContractCode / RemoveAccountContractCode are host calls issued during the run "
                  "and are not register writes in the sense of the property. commit_complete is proved on a register-map abstraction of runtime.Storage "
                  "(registers as opaque values; the slab encoding of values is C44/C22's subject) and checked on the real runtime "
                  "by the state probes; a hang verdict of the harness is re-confirmed by re-running the operation alone.",
    "assumptions": ["the host is transactional for non-register state (contract code, slab indices, uuids): the recording "
                    "host discards them for failed executions and scripts, as the FVM does",
                    "program activity = computation metering of kind Statement/Loop/FunctionInvocation, events, logs, slab allocation"],
    "trusted_base": ["acceptor Verif.Model.Exec and register-map executor Verif.Model.ExecStore validated by stream exec", "fact extractor cmd/vtool/tool_commitsites.go (go/packages + go/types)",
                     "recording host harness/internal/host", "driver Drv/Exec.lean"],
}
