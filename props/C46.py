PROP = {
    "id": "C46",
    "theorem_modules": ["Verif.Properties.C46"],
    "min_theorems": 20,
    "required_theorems": [
        "Verif.Properties.C46.rlpDecodeString_no_panic",
        "Verif.Properties.C46.rlpDecodeList_no_panic",
        "Verif.Properties.C46.string_accepts_canonical",
        "Verif.Properties.C46.string_rejects_rest",
        "Verif.Properties.C46.string_accepted_size",
        "Verif.Properties.C46.string_noncanonical_is_user_error",
        "Verif.Properties.C46.list_accepts_canonical",
        "Verif.Properties.C46.list_rejects_rest",
        "Verif.Properties.C46.list_accepted_size",
        "Verif.Properties.C46.list_noncanonical_is_user_error",
        "Verif.Properties.C46.specDecodeString_iff",
        "Verif.Properties.C46.isFrameB_iff",
        "Verif.Properties.C46.specDecodeList_iff",
        "Verif.Properties.C46.rlpDecodeString_eq_spec",
        "Verif.Properties.C46.rlpDecodeList_eq_spec",
        "Verif.Properties.C46.deep_roundtrip",
        "Verif.Properties.C46.deep_exact",
    ],
    "streams": [
        {"name": "rlp", "driver": "drv_rlp",
         "quick": {"n": 3000}, "thorough": {"n": 60000, "seeds": 4}},
    ],
    "exhaustive": False,
    "technique": "Lean 4 proof over a line-by-line port of the RLP decoder + correspondence stream (exhaustive on short inputs)",
    "level_text": "Lean theorems about a code-shaped model of stdlib/rlp: no Go panic / non-termination for any input; "
                  "exactness: RLP.decodeString accepts exactly encodeString s (|s| <= MaxInt64) and returns s, "
                  "RLP.decodeList accepts exactly encodeList of a sequence of frames and returns those frames, every "
                  "other input is a returned user error (string_/list_accepts_canonical, _rejects_rest, "
                  "_noncanonical_is_user_error); the executable oracles of the driver are proved equivalent to the "
                  "declarative spec in full (specDecodeString_iff, isFrameB_iff, specDecodeList_iff incl. uniqueness of "
                  "frame splitting) and equal to the model wrappers on every input (rlpDecode*_eq_spec); deep version for nested items decoded "
                  "recursively with the wrappers (deep_roundtrip, deep_exact). Tied to /repo "
                  "by the `rlp` correspondence stream: all byte strings of length <= 2 (<= 3 thorough), canonical "
                  "encodings of random nested items and mutations with extreme length prefixes, through "
                  "rlp.DecodeString/DecodeList and through RLP.decodeString/decodeList scripts in both engines; the "
                  "independent executable spec (reference encoder) judges the Go answers.",
    "level_note": "Trusted: Lean kernel; the hand-written port (validated by the stream, every line compared); the "
                  "harness and driver. Go int is modelled as Nat, justified by decodeString_bytesRead_in_input "
                  "(indices never exceed len(inp) < 2^63). DecodeList is shallow, so list exactness is over frames "
                  "(canonical header + announced number of bytes).",
    "assumptions": ["len(inp) < 2^63 (any Go slice)", "a Go slice expression beyond len is treated as a panic in the model"],
    "trusted_base": ["hand-written port Verif.Model.Rlp validated by stream rlp", "Go harness cmd/vharness/stream_rlp.go", "driver Drv/Rlp.lean"],
}
