PROP = {
    "id": "C06",
    "theorem_modules": ["Verif.Properties.C06"],
    "min_theorems": 9,
    "required_theorems": [
        "Verif.Properties.C06.permits_exact",
        "Verif.Properties.C06.intersect_sound",
        "Verif.Properties.C06.image_sound",
        "Verif.Properties.C06.image_monotone",
        "Verif.Properties.C06.upcast_no_escalation",
    ],
    "streams": [
        {"name": "auth", "driver": "drv_auth",
         "quick": {"n": 2000}, "thorough": {"n": 60000, "seeds": 4}},
    ],
    "exhaustive": True,
    "technique": "Lean 4 proof over a port of sema/access.go + exhaustive correspondence stream on real sema.Access values",
    "level_text": "Lean theorems, for an arbitrary entitlement type (no bound on universe or set sizes), about a "
                  "code-shaped model of sema/access.go: PermitsAccess = set semantics on holder sets (conjunction: all, "
                  "disjunction: at least one), PermitsAccess is a preorder, IntersectAccess and the entitlement-map Image "
                  "never grant more than every holder of the source has, Image is monotone along PermitsAccess, hence an "
                  "upcast reference reaches nothing the original could not. Tied to /repo by the `auth` stream on real "
                  "sema.Access values: exhaustive over a 4-entitlement universe (7 primitive accesses, 16 conjunctions, 16 "
                  "disjunctions incl. empty, 2 mapping accesses; all 1,681 pairs) for PermitsAccess / Equal / "
                  "IntersectAccess, all 1,024 mappings over 3 entitlements x 20 inputs for Image and Domain, plus random "
                  "cases over 6 entitlements; Go is compared with the model and, independently, with a brute-force "
                  "set-semantics oracle over all holder sets; programs that read mapped members through upcast references "
                  "run on the real checker and both engines.",
    "level_note": "Trusted: Lean kernel; the hand-written port Verif.Model.Auth (every function compared with Go on every "
                  "stream line); harness and driver. The T <: U half of reference subtyping is C08. Include chains of "
                  "mappings are flattened by the checker before Image runs and are exercised only by the program ops. "
                  "The run-time side derives member-reference authorizations from the checker's elaboration (single source: sema Image).",
    "assumptions": ["authorizations of reference types are unauthorized or a non-empty conjunction/disjunction (IsAuth); "
                    "empty entitlement sets are constructible through the Go API only and are compared with the model, not with the spec"],
    "trusted_base": ["hand-written port Verif.Model.Auth validated by stream auth", "Go harness cmd/vharness/stream_auth.go",
                     "driver Drv/Auth.lean"],
}
