PROP = {
    "id": "C37",
    "theorem_modules": ["Verif.Properties.C37"],
    "min_theorems": 16,
    "required_theorems": [
        "Verif.Properties.C37.lexer_clear_complete",
        "Verif.Properties.C37.token_numbering_pinned",
        "Verif.Properties.C37.depth_guard",
        "Verif.Properties.C37.tokens_contiguous",
        "Verif.Properties.C37.lex_total",
        "Verif.Properties.C37.tokens_cover_input_partial",
        "Verif.Properties.C37.linecol_exact_partial",
        "Verif.Properties.C37.linecol_exact_all_good_partial",
        "Verif.Properties.C37.lex_loops_total_partial",
        "Verif.Properties.C37.linecol_witness_multibyte",
        "Verif.Properties.C37.linecol_witness_empty_token",
    ],
    "gen": [["vtool", "gen-lexerfacts"]],
    "harness_files": ["c37_gen.go"],
    "tool_files": ["tool_lexerfacts.go"],
    "streams": [
        {"name": "lex", "driver": "drv_lex",
         "quick": {"n": 6000}, "thorough": {"n": 60000, "seeds": 4}},
        {"name": "parsecheck", "driver": "drv_parsecheck",
         "quick": {"n": 6000}, "thorough": {"n": 60000, "seeds": 4}},
    ],
    "exhaustive": False,
    "technique": "Lean 4 proof over a line-by-line port of the lexer (parser/lexer/lexer.go + state.go) + fact extraction "
                 "(pooled struct vs clear(), token numbering, limits, depth guards) + correspondence stream on generated "
                 "byte strings; parser and checker by direct-oracle stream only",
    "level_text": "Lean theorems about a code-shaped model of the lexer, for every byte string: consecutive consuming tokens "
                  "are contiguous from offset 0 (tokens_contiguous, full); totality of the lexer port (lex_total, full: run's fuel "
                  "2*len+4 suffices, no second-backup panic, no slice panic, no exhausted loop fuel - by an invariant through all "
                  "seven state functions and the measure 2*(len-endOffset)+rank); coverage (tokens_cover_input_partial: after a stop "
                  "in rootState without panic and without error token the last consuming token ends at len-1); line/column exactness "
                  "(linecol_exact_partial: every non-empty consuming token ending in an ASCII byte, all of whose predecessors "
                  "are such tokens, reports (line, column) = lineCol(input, offset) computed from scratch - via the invariant that "
                  "startOffset/endOffset/prevEndOffset always lie on the rune-boundary chain of utf8.DecodeRune); the two column "
                  "defects outside that region are proved as witnesses (known findings) and positions are judged per input "
                  "by the stream against Spec.LineCol; `decide` obligations over facts regenerated from /repo: clear() resets every field of the pooled "
                  "lexer to the model's initial state, token numbering, tokenLimit, the parser's two depth guards. Tied to "
                  "/repo by the `lex` stream (Go token list = port's token list, token by token, several inputs back to back "
                  "on the pooled lexer; the Go tokens are also judged directly against the position spec). PARTIAL for "
                  "parsing and checking: no Lean model of parser/checker totality; for all byte strings they are covered only "
                  "by the direct-oracle stream `parsecheck` (no crash, no hang, no internal error, reported positions within "
                  "[0, len]) - exploration in support, not proof.",
    "level_note": "Trusted: Lean kernel; the hand-written port Verif.Model.Front.Lexer (validated by stream lex on every run); "
                  "utf8.DecodeRune as ported in Verif.Model.Front.Utf8 (also used by the position spec); the fact extractor; "
                  "harness and drivers. Go slice expressions beyond len are treated as panics (capacity not modelled). The "
                  "memory gauge is not modelled. Parser and checker: direct-oracle exploration only.",
    "assumptions": ["len(input) < 2^63 (any Go slice)", "memoryGauge = nil (no metering panics)",
                    "utf8.DecodeRune behaves as ported (validated by the lex stream incl. all 1- and 2-byte strings over the branch alphabet)"],
    "trusted_base": ["hand-written port Verif.Model.Front.Lexer validated by stream lex", "Verif.Model.Front.Utf8 (DecodeRune port)",
                     "vtool gen-lexerfacts (go/ast fact extraction)", "Go harness cmd/vharness/stream_lex.go, stream_parsecheck.go, c37_gen.go",
                     "drivers Drv/Lex.lean, Drv/Parsecheck.lean"],
}
