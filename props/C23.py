PROP = {
    "id": "C23",
    "theorem_modules": ["Verif.Properties.C23"],
    "min_theorems": 7,
    "required_theorems": [
        "Verif.Properties.C23.health_invariant",
        "Verif.Properties.C23.step_preserves",
    ],
    "streams": [
        {"name": "health", "driver": "drv_health",
         "quick": {"n": 400}, "thorough": {"n": 3000, "seeds": 2},
         "timeout": {"quick": 900, "thorough": 3600}},
    ],
    "exhaustive": False,
    "technique": "Lean 4 proof over an abstract slab-heap protocol model + refinement testing of generated transaction "
                 "histories with Storage.CheckHealth on a fresh storage over the ledger as the oracle",
    "level_text": "Partial. Lean theorems about the slab *protocol* (Verif.Model.Slabs): every sequence of the pointer "
                  "operations the interpreter performs (create, insert, remove, move within / across accounts, overwrite = "
                  "remove + deep-remove + insert, destroy = deep removal) keeps every slab referenced exactly once and "
                  "nothing else referenced, from the empty ledger, for all histories. Tie: stream `health` runs generated "
                  "histories over nested resources, dictionaries, arrays crossing inlining thresholds, references, moves "
                  "between accounts, overwrites, copies, aborts, optional-typed elements / fields / dictionary values / "
                  "storage paths holding immutable values too large to be stored inline (strings of 200-1500 characters, "
                  "integers of 300-1200 bytes) that are read back through a reference, copied and stored again (same "
                  "array, other resource / account, field, dictionary, path), dictionaries with string keys over the "
                  "inline limit and single-entry removals through a reference, and read-everything transactions, "
                  "on the real runtime (both engines, atree validation off "
                  "as in production and on); after every transaction a fresh runtime.Storage over the ledger loads every "
                  "slab register, decodes every stored value and runs Storage.CheckHealth; the model predicts which "
                  "transactions commit and that the ledger is healthy.",
    "level_note": "Not a theorem about atree: slab encoding, splitting, inlining and atree's bookkeeping are trusted; a missed "
                  "deep removal in the Go code is found by the health check on the stream, not by the proof. Acyclicity and "
                  "'nothing held at commit' are not proved for all histories (the driver checks them per history). Immutable "
                  "values (strings, integers) and the Int arrays of the data dictionaries are not containers of the protocol "
                  "model: for those transactions the model only predicts commit / failure, the health oracle judges the ledger.",
    "assumptions": ["slab identity abstracts from the address part of slab IDs (a transfer to another account is the identity "
                    "on the pointer structure)"],
    "trusted_base": ["onflow/atree (CheckStorageHealth is the oracle)", "Go harness cmd/vharness/stream_health.go",
                     "driver Drv/Health.lean (shadow of paths / dictionary keys on top of Verif.Model.Slabs)"],
}
