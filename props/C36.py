import os
import subprocess

PROP = {
    "id": "C36",
    "theorem_modules": ["Verif.Properties.C36"],
    "min_theorems": 9,
    "required_theorems": [
        "Verif.Properties.C36.sharedstate_inventory_ok",
        "Verif.Properties.C36.memo_safe",
        "Verif.Properties.C36.memo_complete",
        "Verif.Properties.C36.memo_linearizable",
        "Verif.Properties.C36.pool_reset",
        "Verif.Properties.C36.lexer_clear_complete",
    ],
    "gen": [["vtool", "gen-sharedstate"], ["vtool", "gen-lexerfacts"]],
    "tool_files": ["tool_cachefacts.go", "tool_sharedstate.go", "tool_lexerfacts.go"],
    "streams": [
        {"name": "conc", "driver": "drv_conc",
         "quick": {"n": 40}, "thorough": {"n": 300, "seeds": 3},
         "timeout": {"quick": 900, "thorough": 3000}},
    ],
    "race_n": {"quick": 12, "thorough": 60},
    "exhaustive": False,
    "technique": "Lean 4 proof over an interleaving semantics of memo-cell protocols and a pool model + fact extraction "
                 "(go/types) of all shared mutable state and its guards against a pinned inventory + concurrent "
                 "re-execution stream in fresh processes, thorough tier under the Go race detector",
    "level_text": "proof (cache/pool model) + FX + CC, partial. Lean: threads are sequences of atomic actions (Load, Store, "
                  "LoadOrStore, once.Do) on a shared memo cell, a schedule is an arbitrary list of thread indices; memo_safe — "
                  "for every number of threads, every assignment of the three protocols found in /repo, every schedule and a "
                  "pure initialiser, the cell only ever holds the initialiser's value and every finished thread obtained it; "
                  "memo_complete / memo_linearizable — every schedule in which each thread takes its two steps ends in the "
                  "same configuration as the sequential run; impure_init_not_linearizable — purity is necessary for the "
                  "load/store protocol; pool_reset — any object handed out by a pool is, after clear + per-use "
                  "initialisation, equal to a fresh one when every field is assigned (lexer_clear_complete by decide on the "
                  "extracted lexer facts). FX: gen-sharedstate lists every package-level variable written inside a function "
                  "body with guard kind and write phase, every struct field that is a sync primitive (40+ memo cells) and "
                  "every sync.Pool with its reset call; sharedstate_inventory_ok (decide): equals the pinned inventory, no "
                  "variable written at run time without a guard, every pool resets. Supporting exploration (not part of the "
                  "proof): stream conc — 2..16 goroutines, randomised start order and GOMAXPROCS, each parsing, checking and "
                  "executing a generated program importing shared checked contracts, in a fresh process per operation (cold "
                  "caches), compared per program with the run alone (outcome, error message, logs, events, ledger, complete "
                  "metering sequence); thorough tier repeats it with a harness built with -race and reports every detector "
                  "report as a violation naming the operation.",
    "level_note": "Partial: a theorem cannot exhibit a data race of the Go memory model; that each shared location is "
                  "accessed only through an atomic primitive is established by the inventory (by type, not by access "
                  "path), unguarded memo fields inside values shared through a host program cache are outside the "
                  "inventory (the known finding vm-shared-string-constant-length-memo was found by the stream, not by "
                  "the facts). The race detector only sees the schedules that occur.",
    "assumptions": ["each method of sync.Once / sync.Map / atomic.Pointer / sync.Mutex is one atomic action",
                    "the write-phase classification init-only-in-repo: exported builders are called only at start-up"],
    "trusted_base": ["pinned inventory Verif.Spec.SharedState", "fact extractors cmd/vtool/tool_sharedstate.go, tool_lexerfacts.go",
                     "harness/internal/meterx, harness/internal/host", "driver Drv/Conc.lean", "Go race detector (thorough tier)"],
}


def extra_check(tier, seed, workdir, helpers):
    """Race-detector run: builds the harness with -race and runs stream `conc` with it (thorough tier, or
    VERIF_RACE=1).  Every `race:` / `crash:` observation is a violation naming the operation."""
    if tier != "thorough" and not os.environ.get("VERIF_RACE"):
        return {"broken": [], "obligations": 0, "discharged": 0, "coverage": {"race_detector": "not run in this tier"}}
    h = helpers
    exe = os.path.join(h.BUILD, "vharness-C36-race")
    files = [os.path.join("cmd", "vharness", f) for f in ("main.go", "stream_conc.go")]
    rc, so, se, dt = h.run(["go", "build", "-race", "-modfile=" + os.path.join(h.BUILD, "go.mod"), "-tags", "verif", "-o", exe] + files,
                           cwd=h.HARNESS, env=h.go_env(), timeout=2400)
    if rc != 0:
        return {"broken": [("go-build:vharness-race", (so + se)[-2000:])], "obligations": 1, "discharged": 0, "coverage": {}}
    prop = dict(PROP)
    prop["id"] = "C36-race"
    stream = PROP["streams"][0]
    n = PROP["race_n"]["thorough" if tier == "thorough" else "quick"]
    r = h.run_stream(prop, stream, tier, seed + 500, n, workdir)
    broken = []
    if r["harness_rc"] != 0 or r.get("driver_rc", 0) != 0:
        broken.append(("race-run", f"rc={r['harness_rc']} {r['harness_err']} {r.get('driver_err', '')}"))
    known = h.load_known()
    races = [v for v in r["violations"] if not h.match_known("C36", v, known)]
    if races:
        races.sort(key=lambda v: len(v["op"]))
        path = h.write_replay("C36", seed, 9, [
            f"property=C36 stream=conc (harness built with -race) seed={seed + 500} class={races[0]['class']}",
            f"the spec requires: {races[0]['spec']}",
            f"{len(races)} failing operations; shortest first",
            "re-run: go build -race ... -o .build/vharness-C36-race; .build/vharness-C36-race conc --replay <this file>"],
            list(dict.fromkeys(v["op"] for v in races))[:10])
        h.log(f"VIOLATION property=C36 replay={path}")
        broken.append(("race-detector", f"{len(races)} operations with class {races[0]['class']}: {races[0]['op'][-300:]}"))
    return {"broken": broken, "obligations": 1, "discharged": 0 if broken else 1,
            "coverage": {"race_detector": {"operations": r["lines"], "ok": r["ok"], "violations": len(r["violations"]),
                                          "build_s": round(dt, 1), "harness_s": r["harness_s"]}}}
