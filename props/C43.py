PROP = {
    "id": "C43",
    "theorem_modules": ["Verif.Properties.C43"],
    "min_theorems": 5,
    "required_theorems": [
        "Verif.Properties.C43.json_erasure_absorbs_ccf_erasure",
        "Verif.Properties.C43.ccf_erasure_keeps_type_ids",
        "Verif.Properties.C43.agree_partial",
        "Verif.Properties.C43.agree_json_side",
        "Verif.Properties.C43.agree_on_proved_subset_partial",
    ],
    "gen": [["vtool", "gen-ccftags"]],
    "tool_files": ["tool_ccftags.go"],
    "harness_files": ["stream_json.go"],
    "streams": [
        {"name": "xcodec", "driver": "drv_xcodec",
         "quick": {"n": 1200}, "thorough": {"n": 20000, "seeds": 4}},
    ],
    "exhaustive": False,
    "technique": "Lean 4 corollary on the shared external value algebra of the JSON-Cadence and CCF models + correspondence "
                 "stream through both Go codecs with a harness-side structural comparer",
    "level_text": "Lean theorems on the shared algebra: JSON-Cadence's erasure absorbs CCF's erasure (erase (eraseV v) = erase v), "
                  "CCF's erasure keeps every type ID, hence (conditional on the two round-trip statements) both decoders return "
                  "the same value after erasure with equal type IDs; unconditional for scalar values on the JSON side. Tie: stream "
                  "`xcodec`: every generated value (all kinds except attachments and functions, which one of the codecs cannot "
                  "decode) is encoded both ways and decoded by both Go decoders; json.Decode's value = erase v (model), "
                  "Erase(ccf.Decode's value) = erase (eraseV v) in key order (model), and the harness-side comparer (Erase, "
                  "dictionaries as sets, value-level types by Type().ID()) finds the two decoded values equal.",
    "level_note": "Partial: unconditional (agree_on_proved_subset_partial) on the subset where both round trips are proved "
                  "(scalars, optionals, arrays, dictionaries, ranges, capabilities; no composite types; equality after erasure when no "
                  "dictionary is reordered, otherwise the CCF entries are a permutation), conditional corollary elsewhere (the full "
                  "round trips of C41 / C42 are correspondence-checked). JSON-decoded "
                  "arrays / dictionaries have no type (Go nil), so type IDs are compared where both decoders give a type. Known "
                  "findings inherited from C41 / C42 (nil ambiguity of optionals in CCF; initializer repeating a field type in JSON).",
    "assumptions": ["capability borrow types are compared by type ID (CCF carries them as inline types)"],
    "trusted_base": ["hand-written ports validated by streams json / ccf / xcodec", "Go harness cmd/vharness/stream_xcodec.go, "
                     "internal/cval (Erase, SortDictionaries, TypeIDOf)", "driver Drv/Xcodec.lean"],
}
