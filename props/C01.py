PROP = {
    "id": "C01",
    "theorem_modules": ["Verif.Properties.C01"],
    "min_theorems": 2,
    "required_theorems": [
        "Verif.Properties.C01.defensive_checks_silent_partial",
        "Verif.Properties.C01.conditional_not_boxed_witness",
    ],
    "streams": [
        {"name": "nointernal", "driver": "drv_lang2",
         "quick": {"n": 1500}, "thorough": {"n": 20000, "seeds": 3}},
    ],
    "harness_files": ["stream_lang2.go"],
    "exhaustive": False,
    "technique": "Lean 4 proof (typing soundness of a sub-fragment of the muCadence L2 evaluator, whose defensive checks "
                 "are explicit internal-error outcomes) + direct-oracle stream over typed generators and mutated "
                 "snippets of the repository's own tests, both engines",
    "level_text": "Lean theorem, for every program, fuel, state and typing environment: a well-typed scalar expression "
                  "(integer / boolean literals, variables, unary and binary operators, &&, ||, conditional) evaluated "
                  "by the L2 evaluator never ends in an internal error (none of the modelled defensive checks — "
                  "invalidated-resource use, member-access type, transfer type, operand type — fires), yields a value of "
                  "its type and leaves the state unchanged (defensive_checks_silent_partial); the model exhibits the "
                  "known finding (conditional_not_boxed_witness). Everything else is the direct-oracle stream "
                  "`nointernal`: any program that the Go checker accepts and that ends, in the interpreter or the VM, "
                  "with an internal error / unexpected error / escaped Go panic / timeout is a VIOLATION — over the typed "
                  "generators of layers L0-L2 (evaluation-order and value programs, copy-semantics, resource-ownership, "
                  "reference-invalidation programs, where the model evaluator also has to reproduce the observation; "
                  "optional / AnyStruct / reference dynamic-cast programs) and over the 'wild' generator: ~1,700 Cadence "
                  "snippets harvested from the raw strings of /repo's own *_test.go sources (all language features), "
                  "normalised to scripts and mutated (literal, operator, type and line-level mutations; thorough tier: "
                  "every snippet once unmutated). A non-error panic raised inside a host callback that the test host "
                  "does not implement is classed as a host failure.",
    "level_note": "proof (scalar expression sub-fragment) + CC + direct-oracle exploration, partial: there is no "
                  "wellTyped judgment for statements, calls, composites, resources and references, so the theorem "
                  "does not cover them; for those C01 rests on the stream, which is exploration, not proof. "
                  "Transactions, contracts, imports, capabilities and the account API beyond storage are not "
                  "generated (snippets using them are skipped). Three genuine violations of the unchanged tree are "
                  "recorded as known findings (narrow classes): conditional-result-not-boxed, resource-self-swap, "
                  "inherited-post-condition-reads-moved-resource.",
    "assumptions": ["scripts without arguments on a fresh account state; computation limit 50,000"],
    "trusted_base": ["hand-written evaluator Verif.Model.Lang2.Eval validated by the L2 streams",
                     "bridge harness/internal/sx2", "driver Drv/Lang2.lean",
                     "error classification of harness/internal/cdc (errors.IsInternalError) and lang2.Observation"],
}
