PROP = {
    "id": "C16",
    "theorem_modules": ["Verif.Properties.C16"],
    "min_theorems": 7,
    "required_theorems": [
        "Verif.Properties.C16.int_target",
        "Verif.Properties.C16.word_target",
        "Verif.Properties.C16.fix_target",
        "Verif.Properties.C16.fix_target_rounding_partial",
        "Verif.Properties.C16.rounds_to_zero_witness",
    ],
    "streams": [
        {"name": "conv", "driver": "drv_conv",
         "quick": {"n": 400}, "thorough": {"n": 6000, "seeds": 4}},
    ],
    "exhaustive": False,
    "technique": "Lean 4 proof over a hand port of the Convert<T> functions + correspondence stream over all 24x24 type pairs",
    "level_text": "Lean theorems about a code-shaped model of the numeric converter functions (interpreter/value_*.go Convert*, "
                  "ToInt, fix128BigIntTo(U)Fix64, onflow/fixed-point ToFix64/ToUFix64): for every source value of every one of the "
                  "24 numeric types and every target type the result is the exact value truncated toward zero (or rounded by the "
                  "given rule) when representable, a range error otherwise, mod 2^n for Word targets. Tied to /repo by the `conv` "
                  "stream: all 576 type pairs x values at and around every target bound, source bound, power of two and negative "
                  "fractions x rounding rules, through interpreter.ConverterDeclarations directly and through T(x) / "
                  "T(x, rounding:) scripts in both engines; the exact-rational spec judges the Go answers independently of the port.",
    "level_note": "Trusted: Lean kernel; the hand-written port (validated by the stream on every line); harness and driver. "
                  "math/big and onflow/fixed-point are modelled (Int arithmetic), compared with the spec on the stream.",
    "assumptions": ["source values are in the range of their type (every Cadence value is)"],
    "trusted_base": ["hand-written port Verif.Model.Convert validated by stream conv", "Go harness cmd/vharness/stream_conv.go + internal/numv", "driver Drv/Conv.lean"],
}
