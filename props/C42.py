PROP = {
    "id": "C42",
    "theorem_modules": ["Verif.Properties.C42"],
    "min_theorems": 19,
    "required_theorems": [
        "Verif.Properties.C42.tags_pinned",
        "Verif.Properties.C42.cbor_roundtrip",
        "Verif.Properties.C42.simple_types_bijective",
        "Verif.Properties.C42.roundtrip_partial",
        "Verif.Properties.C42.roundtrip_dictionary_is_permutation",
        "Verif.Properties.C42.decode_bytes",
        "Verif.Properties.C42.strict_accepts_own_partial",
        "Verif.Properties.C42.strict_rejects_unsorted_dictionary_partial",
        "Verif.Properties.C42.strict_rejects_unsorted_members_partial",
        "Verif.Properties.C42.duplicate_keys_accepted_witness",
        "Verif.Properties.C42.decode_total",
        "Verif.Properties.C42.sort_unique",
        "Verif.Properties.C42.canonical_entitlements",
        "Verif.Properties.C42.canonical_dictionary",
        "Verif.Properties.C42.canonical_intersection",
        "Verif.Properties.C42.canonical_dictionary_partial",
        "Verif.Properties.C42.canonical_keyed_partial",
    ],
    "gen": [["vtool", "gen-ccftags"]],
    "tool_files": ["tool_ccftags.go"],
    "harness_files": ["stream_json.go"],
    "streams": [
        {"name": "ccf", "driver": "drv_ccf",
         "quick": {"n": 1200}, "thorough": {"n": 20000, "seeds": 4}},
    ],
    "exhaustive": False,
    "technique": "Lean 4 proof over code-shaped models of the CCF encoder (type-definition collection and sorting, inline "
                 "types, type values, values, the sorters) and of the CCF decoder (decode.go, decode_type.go, "
                 "decode_typedef.go: type definition table, inline types, type values, values, sortedness enforcement) on "
                 "CBOR data items, with the item <-> bytes layer + fact table of tag numbers / simple type ids from the "
                 "running code + correspondence stream (bytes; ccf.Decode against the port and against the spec; "
                 "permutations; strict decoder; CBOR mutations; hand-built unsorted / duplicate dictionary encodings)",
    "level_text": "Lean theorems: cbor_roundtrip (every well-formed item of the CBOR subset is read back from its shortest-form "
                  "bytes); roundtrip_partial (for every encoder mode and decoder mode, the message of a value built from "
                  "scalars of every integer kind, Fix64/UFix64, strings, characters, addresses, paths, capabilities with "
                  "optionals, arrays, dictionaries and inclusive ranges decodes to the value with dictionary entries in key "
                  "order, of equal type; the decoded entries are a permutation); strict_accepts_own_partial (same subset); "
                  "strict_rejects_unsorted_*_partial (every decoder mode rejects a dictionary value with a key out of order; "
                  "the enforced checks reject out-of-order intersection members / field names / entitlements); decode_total; "
                  "the sorters give one result on every permutation of pairwise different keys; canonical form of entitlement "
                  "sets (full), dictionaries, intersections; pinned tag table and bijective simple-type table (decide). Tie: "
                  "stream `ccf` on generated values of every value kind incl. attachments: Go bytes = encoder model bytes in "
                  "default and deterministic mode; ccf.Decode / strict Decode = the decoder port on every encoding, on every "
                  "CBOR mutation inside the CBOR subset and on hand-built dictionaries; ccf.Decode(ccf.Encode v) = v up to what "
                  "CCF does not carry and re-encodes identically; permutations encode identically in deterministic mode; the "
                  "strict decoder accepts every deterministic encoding and rejects every default-mode encoding that differs "
                  "from it; unsorted hand-built dictionaries are rejected by both decoder modes; no panic or hang.",
    "level_note": "Partial: roundtrip / strict_accepts_own are proved on the subset without composite values, type values, "
                  "Fix128/UFix128, abstract static types (run-time type tags), multi-member intersections / entitlement sets "
                  "in value types, and for decodeMsgF with any fuel above the value's nesting (msgFuel of decodeMsg is not "
                  "proved sufficient); strict_rejects_unsorted is proved per construct, not lifted through arbitrary enclosing "
                  "messages; the canonical-form theorem is proved for the sorting steps, not through the recursive encoder. "
                  "Everything outside the proved subset is correspondence-checked (Go against the decoder port and the spec). "
                  "Duplicate dictionary keys are accepted by the decoder (bytes.Compare <= 0): not counted as unsorted (CCF "
                  "leaves duplicate detection to the application); pinned by duplicate_keys_accepted_witness. Known findings: "
                  "function values cannot be decoded; nil ambiguity of nested optionals / optional Void. Trusted: Lean kernel; "
                  "fxamacker/cbor (incl. acceptance of non-shortest heads, outside the model); the hand-written ports "
                  "(validated by the stream); harness and driver.",
    "assumptions": ["composite / interface types are identified by their type ID (one declaration per ID inside a value)",
                    "dictionary keys, field names, intersection members and entitlements are pairwise different (CCF: "
                    "applications must not provide invalid items to encoders)"],
    "trusted_base": ["hand-written ports Verif.Model.Codec.Ccf / CcfDecode / Cbor / CValue / TypeID validated by stream ccf",
                     "vtool gen-ccftags (facts from the running codec)",
                     "Go harness cmd/vharness/stream_ccf.go, internal/cval", "driver Drv/Ccf.lean"],
}
