PROP = {
    "id": "C42",
    "theorem_modules": ["Verif.Properties.C42"],
    "min_theorems": 9,
    "required_theorems": [
        "Verif.Properties.C42.tags_pinned",
        "Verif.Properties.C42.cbor_roundtrip",
        "Verif.Properties.C42.sort_unique",
        "Verif.Properties.C42.canonical_entitlements",
        "Verif.Properties.C42.canonical_dictionary",
        "Verif.Properties.C42.canonical_intersection",
        "Verif.Properties.C42.canonical_dictionary_partial",
        "Verif.Properties.C42.canonical_keyed_partial",
    ],
    "gen": [["vtool", "gen-ccftags"]],
    "tool_files": ["tool_ccftags.go"],
    "harness_files": ["stream_json.go"],
    "streams": [
        {"name": "ccf", "driver": "drv_ccf",
         "quick": {"n": 1200}, "thorough": {"n": 20000, "seeds": 4}},
    ],
    "exhaustive": False,
    "technique": "Lean 4 proof over a code-shaped model of the CCF encoder (type-definition collection and sorting, inline "
                 "types, type values, values, the sorters) on CBOR data items + fact table of tag numbers / simple type ids "
                 "from the running code + correspondence stream (bytes, decoders against the spec, permutations, strict "
                 "decoder, CBOR mutations)",
    "level_text": "Lean theorems: the sorters give one result on every permutation of pairwise different keys (insertion-sort "
                  "model of sort.Sort with the comparators of sort.go, which are proved to be total orders); the "
                  "deterministic encoding of entitlement sets is order independent (full), of dictionaries, intersections "
                  "and fields after member encoding (partial); pinned tag / simple-type tables (decide). Tie: stream `ccf` on "
                  "generated values of every value kind incl. attachments, with complete static types: Go bytes = model "
                  "bytes in default and deterministic mode; ccf.Decode(ccf.Encode v) = v up to what CCF does not carry "
                  "(initializers, raw/base types, interface members of value types; dictionaries as sets) and re-encodes "
                  "identically; permuted dictionary entries / intersection members / entitlement sets encode identically in "
                  "deterministic mode; the strict decoder accepts every deterministic encoding (and returns a value with the "
                  "same deterministic encoding) and rejects every default-mode encoding that differs from it; CBOR-head and "
                  "byte mutations never make ccf.Decode panic or hang.",
    "level_note": "Partial: there is no Lean port of the CCF decoder, so roundtrip / strict_accepts_own / "
                  "strict_rejects_unsorted / decode_total / cbor_roundtrip are correspondence-checked on the Go code against "
                  "the encoder model and the spec, not theorems; the canonical-form theorem is proved for the sorting steps, "
                  "not through the recursive encoder. Known findings: function values cannot be decoded; nil ambiguity of "
                  "nested optionals / optional Void. Trusted: Lean kernel; fxamacker/cbor; the hand-written port (validated "
                  "byte-for-byte by the stream); harness and driver.",
    "assumptions": ["composite / interface types are identified by their type ID (one declaration per ID inside a value)",
                    "dictionary keys, field names, intersection members and entitlements are pairwise different (CCF: "
                    "applications must not provide invalid items to encoders)"],
    "trusted_base": ["hand-written ports Verif.Model.Codec.Ccf / Cbor / CValue / TypeID validated by stream ccf",
                     "vtool gen-ccftags (facts from the running codec)",
                     "Go harness cmd/vharness/stream_ccf.go, internal/cval", "driver Drv/Ccf.lean"],
}
