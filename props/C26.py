PROP = {
    "id": "C26",
    "theorem_modules": ["Verif.Properties.C26"],
    "min_theorems": 12,
    "required_theorems": [
        "Verif.Properties.C26.add_existing_fails",
        "Verif.Properties.C26.update_missing_fails",
        "Verif.Properties.C26.tryupdate_failure_noop",
        "Verif.Properties.C26.remove_enum_refused",
        "Verif.Properties.C26.visibility",
        "Verif.Properties.C26.aborted_invisible",
        "Verif.Properties.C26.names_exact",
        "Verif.Properties.C26.add_remove_same_tx",
        "Verif.Properties.C26.commit_never_aborts",
    ],
    "streams": [
        {"name": "contracts", "driver": "drv_contracts",
         "quick": {"n": 400}, "thorough": {"n": 6000, "seeds": 4},
         "timeout": {"quick": 300, "thorough": 1500}},
    ],
    "exhaustive": False,
    "technique": "Lean 4 proof about a spec machine (per-account contract map with a transaction view committed on success) + "
                 "refinement testing of the real runtime against the machine on generated histories of lifecycle calls",
    "level_text": "Lean theorems about the spec machine Verif.Model.Contracts, for every state and every history: add fails for "
                  "an existing name (and after a recorded update of the name in the same transaction), update fails for a "
                  "missing one and succeeds exactly when the source is valid, declares the name and the validator accepts it, "
                  "tryUpdate never aborts, a failed tryUpdate changes nothing and a successful one is update, remove is refused "
                  "for code declaring enums, an aborted transaction changes nothing and can be erased from any history, a "
                  "committed one is seen by every later transaction (runHist (h1++h2) = run h2 from what h1 committed), names "
                  "lists exactly the deployed names once each in every reachable state, add followed by remove of the same "
                  "name in one transaction commits with nothing deployed, a transaction aborts only at one of its operations "
                  "(never at commit).  Tied to /repo by the `contracts` "
                  "stream: histories of add/update/tryUpdate/remove/get/borrow/names over 3 accounts x 3 names with 16 sources "
                  "(valid, compatible, incompatible, ill-typed, wrongly named, with enum, interface, unparsable, failing "
                  "initializer, field removed, an enum before / between / after other nested declarations — struct, resource, event, "
                  "struct interface —, nested declarations without an enum) as Cadence transactions on the real runtime with persistent ledger and code "
                  "store, interpreter and VM; every log line and outcome class compared with the machine.",
    "level_note": "proof (spec machine) + CC: theorems are about the machine (the specification); that the Go implementation "
                  "refines it is shown by refinement testing only.  Validity / declared name / enums / interface / failing "
                  "initializer / update compatibility of the 16 sources are input bits computed by the real parser, checker "
                  "and validator on every run (Exec rejects stale bits).  borrow is observed only in transactions that do not "
                  "change contracts before it (per-transaction program caching is not modelled).  Fixed defect 2936d79: add + remove "
                  "of the same contract in one transaction failed with an internal error (now add_remove_same_tx).",
    "assumptions": ["host discards code changes of failed transactions (internal/acct)",
                    "storage health check on (test runtime default)"],
    "trusted_base": ["spec machine Verif.Model.Contracts (is the spec)", "Go harness cmd/vharness/stream_contracts.go, "
                     "internal/acct (host)", "driver Drv/Contracts.lean"],
}
