PROP = {
    "id": "C18",
    "theorem_modules": ["Verif.Properties.C18"],
    "min_theorems": 15,
    "required_theorems": [
        "Verif.Properties.C18.hashtags_distinct",
        "Verif.Properties.C18.hashtags_pinned",
        "Verif.Properties.C18.hashinput_uses_own_tag",
        "Verif.Properties.C18.eq_equiv",
        "Verif.Properties.C18.hash_injective_partial",
        "Verif.Properties.C18.order_total",
        "Verif.Properties.C18.hash_respects_eq",
        "Verif.Properties.C18.typeid_perm_invariant",
        "Verif.Properties.C18.dict_key",
    ],
    "gen": [["vtool", "gen-hashtags"]],
    "tool_files": ["tool_hashtags.go"],
    "streams": [
        {"name": "eqhash", "driver": "drv_eqhash",
         "quick": {"n": 6000}, "thorough": {"n": 150000, "seeds": 4}},
    ],
    "exhaustive": False,
    "technique": "Lean 4 proof over a port of the per-kind Equal / Less / HashInput methods and of StaticType.Equal / ID + correspondence stream with law oracles",
    "level_text": "Lean theorems about a code-shaped model of the per-kind Equal / Less / LessEqual / Greater / "
                  "GreaterEqual / HashInput methods (28 number kinds, strings and characters as normalised bytes, booleans, "
                  "addresses, paths, enums, type values over a static-type algebra with StaticType.Equal and StaticType.ID, "
                  "optionals, arrays, dictionaries): == is an equivalence on all well-formed values, dictionaries included (counting argument on pairwise unequal keys); < is a strict "
                  "total order with <=, >, >= derived and trichotomy with ==; equal values have equal hash input, and equal hash inputs come from equal values for every hashable kind except type values (injectivity of the minimal / fixed-width big-endian number encodings and of the tagged concatenations); type IDs are "
                  "invariant under permutation of intersection members / entitlement sets; equal keys are interchangeable in "
                  "the association-list dictionary. Tag bytes regenerated from hashablevalue.go (distinct, pinned, each "
                  "HashInput uses its own). Tied to /repo by stream `eqhash`: pairs and triples (boundary numbers of every kind, "
                  "canonically equivalent spellings, type values with members in different orders, nested optionals / arrays / "
                  "dictionaries) through the real methods, and as keys of {HashableStruct: Int} dictionaries in scripts in "
                  "both engines; law oracles on Go's answers alone (symmetry, reflexivity, transitivity, trichotomy, derived "
                  "comparisons, hash equality for equal keys, no hash collision of unequal keys, dictionary size and lookups).",
    "level_note": "Partial: hash injectivity is proved for all hashable kinds except type values (needs unambiguity of the "
                  "type-ID grammar and the shared ID namespace; the stream's no-collision oracle covers them). Unicode normalisation is trusted (x/text); function types are outside the model.",
    "assumptions": ["Val.keysOK: the keys of every dictionary are hashable and pairwise unequal (what Insert guarantees; checked "
                    "by the driver on every generated value)",
                    "Val.idPrintable: enum type IDs contain no byte <= 0x20 (checked by the driver)",
                    "Val.wf: numbers in range of their kind, 8-byte addresses, intersection and entitlement-set members "
                    "listed once, no unknown type value (TypeValue{Type: nil}, produced only by decoding stored data; it is "
                    "deliberately unequal to itself: unknown_type_not_reflexive_witness)",
                    "a primitive static type is identified by its type ID (stream op `prims`, exhaustive)"],
    "trusted_base": ["hand-written port Verif.Model.Val.Hashable validated by stream eqhash",
                     "vtool gen-hashtags (go/ast constant extraction)",
                     "Go harness cmd/vharness/stream_eqhash.go", "driver Drv/Eqhash.lean"],
}
