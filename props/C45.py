PROP = {
    "id": "C45",
    "theorem_modules": ["Verif.Properties.C45"],
    "min_theorems": 11,
    "required_theorems": [
        "Verif.Properties.C45.id_agree",
        "Verif.Properties.C45.id_agree_import",
        "Verif.Properties.C45.convert_roundtrip_partial",
        "Verif.Properties.C45.convert_roundtrip_witness",
        "Verif.Properties.C45.decode_typeid_partial",
        "Verif.Properties.C45.decode_typeid_witness",
        "Verif.Properties.C45.constructors_simple",
        "Verif.Properties.C45.constructors_capability",
        "Verif.Properties.C45.constructors_composite",
        "Verif.Properties.C45.constructors_reference",
        "Verif.Properties.C45.constructors_intersection",
    ],
    "streams": [
        {"name": "typeid", "driver": "drv_typeid",
         "quick": {"n": 3000}, "thorough": {"n": 60000, "seeds": 4}},
    ],
    "exhaustive": False,
    "technique": "Lean 4 proof over code-shaped ports of common/*location.go and of the ID()/conversion functions of the three type representations + correspondence stream",
    "level_text": "Lean theorems about ports of common/location.go + the six location kinds (type IDs, DecodeTypeID and the per-prefix "
                  "decoders incl. hex and SplitN) and of the ID() methods of checker types, run-time static types and exported types, "
                  "ConvertSemaToStaticType / ConvertStaticToSemaType (with the interpreter's lookups, which decode entitlement IDs), "
                  "ExportType / ImportType and the run-time type constructors: the three IDs coincide on corresponding types (id_agree, "
                  "id_agree_import); checker -> run-time -> checker is the identity on types whose members the run-time lookups find "
                  "(convert_roundtrip_partial); decodeTypeID(typeID(loc, qid)) = (loc, qid) for decodable locations (decode_typeid_partial); "
                  "each run-time constructor builds the static type of the corresponding checker type (constructors_*). Tied to /repo by the "
                  "`typeid` stream: every simple type, every nominal type of a universe declared through the real checker at nine locations "
                  "(all six kinds, incl. dotted string/identifier names, a contract at an address location, built-in entitlements), "
                  "entitlement sets and intersections in every member order, random structured types; Go's sema/static/exported/imported IDs, "
                  "the sema->static->sema round trip through a real interpreter's lookups, DecodeTypeID on generated and malformed IDs, and "
                  "the run-time constructors through scripts in both engines are compared with the model and judged directly.",
    "level_note": "Partial: decode and conversion round trips are proved (and hold in /repo) only for string/identifier location names "
                  "without '.' (known findings typeid-dotted-location-decode, typeid-dotted-location-type-load), and for address locations "
                  "whose name is the first component of the qualified identifier (the name is not part of the ID). Function type parameters, "
                  "legacy intersection types, deprecated primitive static types and nominal types without location that name a primitive are "
                  "outside the model; the guards of DictionaryType / InclusiveRangeType / IntersectionType constructors are parameters.",
    "assumptions": ["Go strings are valid UTF-8 (splitting at byte '.' = splitting the character list; byte order = code-point order)",
                    "entitlement sets of checker types have no repeated member (the checker's set is keyed by the entitlement type)"],
    "trusted_base": ["hand-written ports Verif.Model.Types.{Location,TypeID} validated by stream typeid",
                     "Go harness cmd/vharness/stream_typeid.go", "driver Drv/Typeid.lean"],
}
