PROP = {
    "id": "C27",
    "theorem_modules": ["Verif.Properties.C27"],
    "min_theorems": 5,
    "required_theorems": [
        "Verif.Properties.C27.comparator_sound_partial",
        "Verif.Properties.C27.accepted_declaration_compatible_partial",
        "Verif.Properties.C27.enum_case_stable",
    ],
    "streams": [
        {"name": "update", "driver": "drv_update",
         "quick": {"n": 2500}, "thorough": {"n": 40000, "seeds": 4},
         "timeout": {"quick": 300, "thorough": 1500}},
    ],
    "harness_files": ["update_e2e.go"],
    "exhaustive": False,
    "technique": "Lean 4 proof over a line-by-line port of the contract update validator and its type comparator + "
                 "correspondence stream on mutated generated contracts (real parser, real validator) + full deploy/update path",
    "level_text": "Lean theorems about a code-shaped model of stdlib/contract_update_validation.go and type-comparator.go "
                  "(Verif.Model.Update): an accepted comparison of two declarations implies same kind and name, every field of "
                  "the new declaration present in the old one with a type AST of the same denotation, old enum cases a prefix "
                  "of the new ones, every old conformance kept, nested declarations missing only under a #removedType pragma "
                  "and never interfaces; the type comparator identifies only ASTs of the same denotation.  Tied to /repo by "
                  "the `update` stream: (old, new) pairs produced by mutating generated contracts are parsed by the real "
                  "parser, serialised (internal/declsx), and the model's verdict and multiset of error kinds is compared with "
                  "the real ContractUpdateValidator.Validate.",
    "level_note": "proof (code-shaped model) + CC.  Partial: see the _partial theorems (import maps assumed equal; the "
                  "induction from the root over paths and stored values is stated in Verif.Spec.Update).  Trusted: the "
                  "hand-written port (every generated pair compared), the serializer internal/declsx, the driver.",
    "assumptions": ["the Go type of a declaration node is a function of its DeclarationKind (checked by the reader per line)",
                    "type names resolve at contract level; built-in type names are not redeclared (checker)"],
    "trusted_base": ["hand-written port Verif.Model.Update validated by stream update",
                     "Go harness cmd/vharness/stream_update.go, internal/declsx", "driver Drv/Update.lean"],
}
