PROP = {
    "id": "C27",
    "theorem_modules": ["Verif.Properties.C27"],
    "min_theorems": 10,
    "required_theorems": [
        "Verif.Properties.C27.comparator_sound_partial",
        "Verif.Properties.C27.accepted_declaration_compatible_partial",
        "Verif.Properties.C27.accepted_tree_compatible_partial",
        "Verif.Properties.C27.values_stay_typed_partial",
        "Verif.Properties.C27.enum_meaning_stable_partial",
        "Verif.Properties.C27.interface_never_removed",
        "Verif.Properties.C27.live_unless_removed",
        "Verif.Properties.C27.enum_case_stable",
    ],
    "streams": [
        {"name": "update", "driver": "drv_update",
         "quick": {"n": 2500}, "thorough": {"n": 40000, "seeds": 4},
         "timeout": {"quick": 300, "thorough": 1500}},
    ],
    "harness_files": ["update_e2e.go"],
    "exhaustive": False,
    "technique": "Lean 4 proof over a line-by-line port of the contract update validator and its type comparator + "
                 "correspondence stream on mutated generated contracts (real parser, real validator) + full deploy/update path",
    "level_text": "Lean theorems about a code-shaped model of stdlib/contract_update_validation.go and type-comparator.go "
                  "(Verif.Model.Update).  Main theorem values_stay_typed_partial: if the validator accepts, every stored "
                  "value (arbitrarily nested composites, enums, values at interface types by direct or transitive "
                  "conformance, optionals, arrays, dictionaries) that is well typed under the old declarations and whose "
                  "composite/enum types are still declared is well typed at the same type under the new ones: every field "
                  "the new declaration lists is present with a value of the declared type, enum raw values stay in range and "
                  "keep their case (enum_meaning_stable_partial), every interface conformed to is still conformed to; proved by "
                  "induction over the path to a nested declaration through the three loops of checkNestedDeclarations "
                  "(accepted_tree_compatible_partial), over the conformance derivation and over the value.  Interfaces are "
                  "never removed (interface_never_removed), other declarations at any depth only under a #removedType pragma "
                  "(live_unless_removed); the type "
                  "comparator identifies only ASTs of the same denotation.  Tied to /repo by the `update` stream: (old, new) "
                  "pairs produced by mutating generated contracts are parsed by the real parser, serialised (internal/declsx), "
                  "and the model's verdict and multiset of error kinds is compared with the real "
                  "ContractUpdateValidator.Validate; e2e lines run the full path on the real runtime (deploy old, store "
                  "values of every struct/enum/resource and of container and interface types over them, contracts.update, "
                  "inspect the stored values with the new code, interpreter and VM) with the direct oracle: update accepted "
                  "and afterwards a stored value fails to load / lacks or mistypes a declared field / an enum value changes "
                  "its case / a value is no longer an instance of a former interface.",
    "level_note": "proof (code-shaped model) + CC.  Partial: values_stay_typed_partial assumes that the import maps of both "
                  "versions agree on every identifier and that the new program declares no two nested types of the same name "
                  "at one level (checker); values of types removed under a #removedType pragma are excluded (pathsLive).  "
                  "Trusted: the hand-written port (every generated pair compared), the serializer internal/declsx, the driver.  "
                  "Fixed defect 5d4d335 (conformance removal from an interface declaration was accepted).",
    "assumptions": ["the Go type of a declaration node is a function of its DeclarationKind (checked by the reader per line)",
                    "type names resolve at contract level; built-in type names are not redeclared (checker)"],
    "trusted_base": ["hand-written port Verif.Model.Update validated by stream update",
                     "Go harness cmd/vharness/stream_update.go, internal/declsx", "driver Drv/Update.lean"],
}
