PROP = {
    "id": "C38",
    "theorem_modules": ["Verif.Properties.C38"],
    "min_theorems": 14,
    "required_theorems": [
        "Verif.Properties.C38.tables_consistent",
        "Verif.Properties.C38.tables_pinned",
        "Verif.Properties.C38.kind_precedences_pinned",
        "Verif.Properties.C38.other_powers_pinned",
        "Verif.Properties.C38.move_in_cast_fixed",
        "Verif.Properties.C38.int_literal_member_fixed",
        "Verif.Properties.C38.negative_literal_postfix_fixed",
        "Verif.Properties.C38.ref_of_ref_witness",
        "Verif.Properties.C38.powers_linear",
        "Verif.Properties.C38.expr_parse_print",
        "Verif.Properties.C38.expr_roundtrip_partial",
        "Verif.Properties.C38.type_roundtrip",
        "Verif.Properties.C38.string_escape_roundtrip",
    ],
    "gen": [["vtool", "gen-prectables"]],
    "tool_files": ["tool_prectables.go"],
    "harness_files": ["c38_gen.go"],
    "streams": [
        {"name": "pp", "driver": "drv_pp",
         "quick": {"n": 4000}, "thorough": {"n": 60000, "seeds": 4}},
    ],
    "exhaustive": False,
    "technique": "Lean 4 proof over ports of the printer's parenthesisation logic and of the parser's Pratt core + fact "
                 "extraction of the precedence / binding-power tables (decide) + correspondence stream with a Go-only "
                 "round-trip oracle on generated expressions, types and whole programs",
    "level_text": "PROOF on the ports' fragment + CC. FX: the AST precedence table (ast/precedence.go, precedence() methods) "
                  "and the parser's binding powers / associativity (parser/expression.go) are regenerated on every run, proved "
                  "order-isomorphic level by level (tables_consistent), numerically linear (powers_linear: power = 10*(rank+1), "
                  "the bridge of the Pratt argument) and pinned in shape (tables_pinned, kind_precedences_pinned, "
                  "other_powers_pinned). Theorems on the ports, for ALL inputs: expr_roundtrip_partial = parseAll (printE e) = "
                  "some e for every well-formed expression of the fragment (prefix operators, references, force, all 19 "
                  "binary operators with associativity, casts with type annotations, conditional, member / index access, invocation "
                  "with labelled arguments, "
                  "literals, arbitrarily nested) by the standard Pratt induction (expr_parse_print: the generalised statement "
                  "over right binding power and token suffix); well-formedness = parser-producible minus the recorded findings "
                  "(&(&x), comparison chains); type_roundtrip for the type sub-language (nominal / optional / reference incl. "
                  "the lexer's ?? merging); string_escape_roundtrip for every string incl. \\u{...}; kernel-checked witnesses of "
                  "the repaired defects and of the recorded one (ref_of_ref_witness). `_partial`: type arguments, array / dictionary "
                  "/ string / path literals, create / destroy / attach, function expressions, statements and declarations are "
                  "not in the ports - CC only. CC stream `pp`: grammar-generated expressions (sub-expressions parenthesised at "
                  "random so every tree shape occurs), types, whole programs, strings: Go parse -> Prettier(Doc) -> re-parse -> "
                  "AST JSON equality modulo positions (direct oracle, Go alone; failing programs are shrunk to the smallest "
                  "failing sub-expression); inside the ports' fragment additionally port print = Go print token for token, port "
                  "parse = Go parse on the source tokens and on the printed tokens, port round trip; every op is tagged wf / "
                  "non-wf (inside / outside the theorem's domain).",
    "level_note": "Trusted: Lean kernel; the hand-written ports (validated by the stream on every run); vtool gen-prectables "
                  "(go/ast extraction); harness (AST JSON stripping of position fields, S-expression serialisation) and driver. "
                  "The ports render documents flat: the effect of line breaks on the parser (newline before `(`, `[`, `!`; "
                  "white space before a type's postfix `?`) is covered by the Go-only oracle only. Declarations and statements "
                  "are CC only. AST equality is equality of the AST's own MarshalJSON output without position fields.",
    "assumptions": ["identifiers are not keywords (what the parser produces)",
                    "AST equality = equality of MarshalJSON output with position fields and doc strings removed"],
    "trusted_base": ["hand-written ports Verif.Model.Front.{ExprSyntax,Print,Pratt,StrLit} validated by stream pp",
                     "vtool gen-prectables (go/ast fact extraction)",
                     "Go harness cmd/vharness/stream_pp.go, c38_gen.go", "driver Drv/Pp.lean"],
}
