PROP = {
    "id": "C38",
    "theorem_modules": ["Verif.Properties.C38"],
    "min_theorems": 11,
    "required_theorems": [
        "Verif.Properties.C38.tables_consistent",
        "Verif.Properties.C38.tables_pinned",
        "Verif.Properties.C38.kind_precedences_pinned",
        "Verif.Properties.C38.other_powers_pinned",
        "Verif.Properties.C38.move_in_cast_fixed",
        "Verif.Properties.C38.int_literal_member_fixed",
        "Verif.Properties.C38.negative_literal_postfix_fixed",
        "Verif.Properties.C38.ref_of_ref_witness",
        "Verif.Properties.C38.expr_roundtrip_partial",
        "Verif.Properties.C38.string_escape_roundtrip_partial",
    ],
    "gen": [["vtool", "gen-prectables"]],
    "tool_files": ["tool_prectables.go"],
    "harness_files": ["c38_gen.go"],
    "streams": [
        {"name": "pp", "driver": "drv_pp",
         "quick": {"n": 4000}, "thorough": {"n": 60000, "seeds": 4}},
    ],
    "exhaustive": False,
    "technique": "Lean 4 proof over ports of the printer's parenthesisation logic and of the parser's Pratt core + fact "
                 "extraction of the precedence / binding-power tables (decide) + correspondence stream with a Go-only "
                 "round-trip oracle on generated expressions, types and whole programs",
    "level_text": "PARTIAL. FX: the AST precedence table (ast/precedence.go, precedence() methods) and the parser's binding "
                  "powers / associativity (parser/expression.go) are regenerated on every run and proved order-isomorphic "
                  "level by level (tables_consistent, by decide) and pinned in shape (tables_pinned, kind_precedences_pinned, "
                  "other_powers_pinned). Theorems on the ports: round trip for the atoms fragment (expr_roundtrip_partial; the "
                  "full statement for the ports' fragment is NOT proved - it is exercised per input by the stream), quoting "
                  "round trip for strings without \\u escapes (string_escape_roundtrip_partial), kernel-checked witnesses of the "
                  "repaired defects (move_in_cast_fixed, int_literal_member_fixed, negative_literal_postfix_fixed) and of the "
                  "recorded one (ref_of_ref_witness). CC stream `pp`: grammar-generated expressions (sub-expressions "
                  "parenthesised at random so every tree shape occurs), types, whole programs (all declaration / statement "
                  "forms the generator covers), strings: Go parse -> Prettier(Doc) -> re-parse -> AST JSON equality modulo "
                  "positions (direct oracle, Go alone; failing programs are shrunk to the smallest failing sub-expression); "
                  "inside the ports' fragment additionally port print = Go print token for token, port parse = Go parse on the "
                  "source tokens and on the printed tokens, port round trip.",
    "level_note": "Trusted: Lean kernel; the hand-written ports (validated by the stream on every run); vtool gen-prectables "
                  "(go/ast extraction); harness (AST JSON stripping of position fields, S-expression serialisation) and driver. "
                  "The ports render documents flat: the effect of line breaks on the parser (newline before `(`, `[`, `!`; "
                  "white space before a type's postfix `?`) is covered by the Go-only oracle only. Declarations and statements "
                  "are CC only. AST equality is equality of the AST's own MarshalJSON output without position fields.",
    "assumptions": ["identifiers are not keywords (what the parser produces)",
                    "AST equality = equality of MarshalJSON output with position fields and doc strings removed"],
    "trusted_base": ["hand-written ports Verif.Model.Front.{ExprSyntax,Print,Pratt,StrLit} validated by stream pp",
                     "vtool gen-prectables (go/ast fact extraction)",
                     "Go harness cmd/vharness/stream_pp.go, c38_gen.go", "driver Drv/Pp.lean"],
}
