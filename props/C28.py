PROP = {
    "id": "C28",
    "theorem_modules": ["Verif.Properties.C28"],
    "min_theorems": 9,
    "required_theorems": [
        "Verif.Properties.C28.hostfacts_ok",
        "Verif.Properties.C28.extracted_all_wrapped",
        "Verif.Properties.C28.propagates_partial",
        "Verif.Properties.C28.propagates",
        "Verif.Properties.C28.no_success_after_failure",
        "Verif.Properties.C28.no_success_after_failure_partial",
        "Verif.Properties.C28.bls_swallow_witness",
    ],
    "gen": [["vtool", "gen-hostfacts"]],
    "tool_files": ["tool_hostfacts.go"],
    "streams": [
        {"name": "fault", "driver": "drv_fault",
         "quick": {"n": 1}, "thorough": {"n": 1, "seeds": 2}},
    ],
    "exhaustive": True,
    "technique": "Lean 4 proof of failure propagation over execution trees + fact extraction of the ExternalInterface "
                 "method shapes and of all recover() sites (decide) + exhaustive crash-point stream on a fault-injecting host",
    "level_text": "proof (propagation model) + FX + CC. Lean: for every execution tree of host calls and every failure "
                  "plan (any number of error-return / panic injections), if all call sites wrap panics and return the "
                  "wrapped error and the executors run under Recover, then success implies every reached failure was "
                  "caught by a contracts.tryUpdate frame, and otherwise the result is an external-tagged error carrying "
                  "the first failure outside an exception frame, raised at the last host call made; no panic escapes "
                  "(trees without BLS aggregation calls: _partial; witness for the BLS exception); propagates / "
                  "no_success_after_failure extend both to ALL trees, absorbErr (BLS aggregation) nodes included, with the "
                  "absorbed failures explicit: the result is ok or an external error carrying an injected failure raised at "
                  "the last call made, every earlier failure was caught by tryUpdate or absorbed, and only an error RETURN "
                  "(never a panic) of a call made by an absorbErr node is ever absorbed - the original conclusion 'caught by "
                  "a documented frame' is false on such trees (bls_swallow_witness), which is why they stay _partial. FX: all 45 methods of "
                  "runtime.ExternalInterface call the inner interface inside errors.WrapPanic and return the "
                  "WrappedExternalError; the method set equals Interface+Metrics; the 36 recover() sites and the "
                  "defer-Recover entry points equal the pinned inventory. CC stream `fault`: 14 corpus programs (incl. first storage of 2 and 3 fresh accounts in one "
                  "transaction with every register write of the commit as a crash point) x both "
                  "engines; every (callback, call index) reached in a clean run (all indices when <= 6 calls, else first/"
                  "second/middle/last two; all up to 40 in the thorough tier) x {error return, panic}, plus sampled pairs "
                  "of failures; observation (escaped, ok/err, errors.As ExternalError, errors.Is sentinel, error class, "
                  "deployment result) judged by the property directly and compared with the model's prediction.",
    "level_note": "The theorem does not cover unmodelled Go code between a call site and the top that drops a returned "
                  "error; that is what the crash-point stream covers, bounded by its corpus (it found the known finding "
                  "bls-aggregate-error-swallowed and vm-type-load-drops-host-error, the latter fixed in /repo c7c148d: the VM's "
                  "load*Type handlers now panic with the error of loading the declaring program as the interpreter's import "
                  "handler does; witnesses in corpus/fault). A later host failure raised while the first one unwinds (metrics callbacks) may replace the "
                  "first in the result; the oracle accepts any injected failure of the run as carrier. 40 of 45 callbacks "
                  "are reached by the corpus (not reached: GetCode, ValueExists, ImplementationDebugLog, RecordTrace, "
                  "RecoverProgram and similar).",
    "assumptions": ["host panics carry a Go error value that is not a runtime.Error / InternalError (those are re-panicked unwrapped by design)"],
    "trusted_base": ["propagation model Verif.Model.HostProp", "fact extractor cmd/vtool/tool_hostfacts.go (go/ast)",
                     "fault-injecting host harness/internal/host", "driver Drv/Fault.lean"],
}
