PROP = {
    "id": "C20",
    "theorem_modules": ["Verif.Properties.C20"],
    "min_theorems": 19,
    "required_theorems": [
        "Verif.Properties.C20.index_error_iff",
        "Verif.Properties.C20.insert_remove_inverse",
        "Verif.Properties.C20.slice_spec",
        "Verif.Properties.C20.reverse_involutive",
        "Verif.Properties.C20.filter_map_spec",
        "Verif.Properties.C20.dict_insert_get",
        "Verif.Properties.C20.dict_remove",
        "Verif.Properties.C20.keys_values_consistent",
        "Verif.Properties.C20.persist",
        "Verif.Properties.C20.iteration_guards",
        "Verif.Properties.C20.mutation_in_iteration_fails",
        "Verif.Properties.C20.guard_released_after_iteration",
        "Verif.Properties.C20.iter_op_spec",
    ],
    "streams": [
        {"name": "cont", "driver": "drv_cont",
         "quick": {"n": 60}, "thorough": {"n": 60, "seeds": 2},
         "timeout": {"quick": 300, "thorough": 3000}},
    ],
    "exhaustive": False,
    "technique": "Lean 4 proof of the laws of a list / finite-map specification and of persistence in a commit/abort "
                 "machine + refinement testing of the real runtime (atree-backed arrays and dictionaries) against it",
    "level_text": "Lean theorems about the specification Verif.Spec.Containers (arrays = lists, dictionaries = association "
                  "lists with distinct keys), for all lists / maps / indices: index errors exactly for invalid indices "
                  "(read, write, insert, remove, removeFirst/Last, slice), insert/remove inverse, slice = drop/take, reverse "
                  "involutive, filter/map/concat/contains/firstIndex/toConstantSized/toVariableSized laws, dictionary "
                  "insert/remove/get/keys/values/containsKey consistency with distinct keys preserved by every operation, "
                  "persistence in the transaction machine (a history of committed transactions = the same operations in "
                  "memory; an aborted transaction is a no-op), and the mutation guard of iterations (programs of nested "
                  "iterations and mutations over one container: while any iteration is active a program fails with the "
                  "mutation error exactly when it attempts a mutation, whatever its arguments, and otherwise leaves the "
                  "container unchanged; the guard of an outer iteration survives the end of a nested one; after the "
                  "iteration the mutation is the plain one).  Tied to /repo by the `cont` correspondence stream: operation "
                  "sequences (40-300 operations quick, 200-1500 thorough, at most ~300 per transaction) on [Int], [String] (strings up to 1100 chars: "
                  "non-inlinable), [[Int]], [struct], [T; 4] and {Int|String: Int|String|[Int]|struct}, sizes crossing atree slab "
                  "thresholds (hundreds of elements), each transaction either in memory (load, operate, save back) or in "
                  "place through an auth(Mutate) reference into storage, reloaded from the ledger in later transactions, in "
                  "the interpreter and the VM; every result and the full contents after every transaction are compared "
                  "(dictionary enumerations as multisets, arrays exactly). Iteration operations: `for` / map / forEachKey "
                  "over the container with a nested iteration over the same container (a `for` that ends, a filter / "
                  "forEachKey that ends, a `for` holding the mutation) and a mutation of the container at a chosen step, "
                  "after the loop, or after a `break` (must fail with ContainerMutatedDuringIterationError exactly when the "
                  "step is reached, also with an invalid index); every outer x nesting x mutation combination on 7 shapes "
                  "in both modes and engines in every run (28 directed histories), plus random ones.",
    "level_note": "proof (spec machine) + CC: the spec is the property; that interpreter/value_array.go, value_dictionary.go, "
                  "bbq/vm and atree refine it is shown only by refinement testing on the generated sequences. atree is an "
                  "external dependency (trusted, exercised). Iteration is modelled only as far as the mutation guard goes "
                  "(loop bodies do nothing but count, run a nested iteration and mutate).",
    "assumptions": ["element universe: Int (small, 2^128, and 2^2000 / 2^4400 / 2^9000 + c: beyond the inline limits of dictionary keys / array elements), one-letter-repeated Strings, [Int], struct K.P(a: Int, b: String); keys Int or String",
                    "runs stopped by the harness computation limit (10^8) or rejected by the VM compiler as too large (65534 instructions per function) are skipped, not compared"],
    "trusted_base": ["spec Verif.Spec.Containers / machine Verif.Model.Cont (is the spec)",
                     "Go harness cmd/vharness/stream_cont.go (typed Cadence templates; canonicalisation: letter runs compressed, "
                     "composite fields and dictionary enumerations sorted)", "driver Drv/Cont.lean"],
}
