PROP = {
    "id": "C31",
    "theorem_modules": ["Verif.Properties.C31"],
    "min_theorems": 8,
    "required_theorems": [
        "Verif.Properties.C31.cachefacts_ok",
        "Verif.Properties.C31.history_independent",
        "Verif.Properties.C31.history_independent_repo",
        "Verif.Properties.C31.metered_fill_history_dependent",
        "Verif.Properties.C31.history_independent_partial",
        "Verif.Properties.C31.shared_string_constant_witness",
    ],
    "gen": [["vtool", "gen-cachefacts"]],
    "tool_files": ["tool_cachefacts.go"],
    "streams": [
        {"name": "meterhist", "driver": "drv_meterhist",
         "quick": {"n": 30}, "thorough": {"n": 400, "seeds": 3},
         "timeout": {"quick": 600, "thorough": 3000}},
    ],
    "exhaustive": False,
    "technique": "Lean 4 proof over a model of process-wide memo cells / caches + fact extraction (go/types) of every "
                 "cache site and the metering reachable in its fill path against a pinned classified inventory + "
                 "fresh-process / reused-process re-execution stream comparing the recorded gauge call sequences",
    "level_text": "proof (cache model) + FX + CC, partial. Lean: a program as seen by gauges and caches is a tree of gauge "
                  "calls and cache reads whose continuation depends on the value read; history_independent — if no cache "
                  "fill path meters, then for every program and every two histories of earlier programs in the process the "
                  "emitted MeterComputation/MeterMemory sequences and the results are equal (fresh_eq_reused, "
                  "cache_state_irrelevant); metered_fill_history_dependent — the side condition is necessary; "
                  "history_independent_repo instantiates the side condition from the extracted facts. FX: gen-cachefacts "
                  "(go/packages + go/types) lists every sync.Once / sync.Map / atomic.Pointer / mutex cell (package "
                  "variables and struct fields, 53 sites) with its writers and every common.UseMemory/UseComputation call or "
                  "live (non-nil, not late-bound) gauge argument reachable in the fill path (static callees, depth 6); "
                  "cachefacts_ok (decide): inventory = pinned classification and every cell that can outlive an execution "
                  "(small-integer value cache, sema/ast/cadence type memo cells) has no hit. CC: stream meterhist runs each "
                  "generated program (whole language: all integer types, InclusiveRange, containers, strings, composites, "
                  "resources, entitlements, imports of shared contracts, storage, capabilities, failing endings) alone in a "
                  "fresh process and again in a long-lived process after random other programs and after itself, both "
                  "engines each against itself, and compares the complete recorded gauge call sequences (parsing, checking, "
                  "execution) and outcomes; GetSmallIntegerValue is compared with the model's pure initialiser for all 20 "
                  "types x 256 values (thorough); op sharedprog runs each program twice with a host program cache kept across "
                  "executions (first vs later execution). Known finding vm-shared-string-constant-length-memo (VM only): the "
                  "grapheme-length memo of a string constant of a shared compiled program is metered for the first user only "
                  "(shared_string_constant_witness in the model; history_independent_partial proves the property for programs "
                  "that read no metered cell).",
    "level_note": "Partial: the program side is abstract (any deterministic program whose only dependence on process state is "
                  "through values read from caches); the internals of sema's caches are covered by the fact table and the "
                  "stream, not modelled. The fact extractor does not follow calls through interfaces or function values. "
                  "Process-level state outside the inventoried cells (Go runtime, allocator) is outside the theorem; the "
                  "stream is supporting exploration for that part.",
    "assumptions": ["the classification of each cache site in Verif.Spec.CacheFacts is correct (by reading)",
                    "metering inside a fill path is reached through statically resolvable calls (depth <= 6)"],
    "trusted_base": ["pinned classification Verif.Spec.CacheFacts", "fact extractor cmd/vtool/tool_cachefacts.go (go/packages + go/types)",
                     "recording gauges harness/internal/meterx, recording host harness/internal/host", "driver Drv/MeterHist.lean"],
}
