PROP = {
    "id": "C49",
    "theorem_modules": ["Verif.Properties.C49"],
    "min_theorems": 8,
    "required_theorems": [
        "Verif.Properties.C49.at_most_one",
        "Verif.Properties.C49.attach_fails_iff_present",
        "Verif.Properties.C49.attach_moves_base",
        "Verif.Properties.C49.travels_move",
        "Verif.Properties.C49.travels_array",
        "Verif.Properties.C49.remove_destroys",
        "Verif.Properties.C49.destroy_base_destroys_all",
        "Verif.Properties.C49.base_self_binding",
    ],
    "streams": [
        {"name": "attach", "driver": "drv_attach",
         "quick": {"n": 500}, "thorough": {"n": 8000, "seeds": 4}},
    ],
    "exhaustive": False,
    "technique": "Lean 4 proof over a core calculus of attachment tables on resource and struct bases + "
                 "correspondence stream in both engines",
    "level_text": "partial (core calculus): Lean theorems, for all statement sequences / states of the calculus: every "
                  "composite in a variable or in the array carries at most one attachment per attachment type in every "
                  "reachable state (at_most_one); attach fails exactly when the type is already present "
                  "(attach_fails_iff_present), otherwise moves a resource base (source unbound) / copies a struct base "
                  "into the result and runs the initializer with base = that value (attach_moves_base, "
                  "attach_copies_struct); moves, copies and array round trips preserve the attachment table "
                  "(travels_move, travels_array); remove emits exactly the removed resource attachment's destroy "
                  "event and leaves the other attachments (remove_destroys, remove_absent); destroying a base emits "
                  "one destroy event per attachment, computed with base = that value, then the base's "
                  "(destroy_base_destroys_all); x[A].f() sees self = the table entry and base = the current value of "
                  "x after moves and updates (base_self_binding). Tied to /repo by the stream `attach`: generated "
                  "programs over resource R (attachments A, B with ResourceDestroyed(id = base.id, k = self.k, n = base.n)) "
                  "and struct S (SA, SB): attach, double attach, remove present/absent, moves, struct copies, array "
                  "append/removeFirst, field updates, v[A]?.sum(), v[A]?.setK, access through &R / &S, destroy; "
                  "outcome, log and ordered EmitEvent payloads on interpreter, VM, VM+peephole vs the model; direct "
                  "oracles: a double attach that succeeds, an attachment destroyed after its base. "
                  "The calculus leaves out: entitlement-mapped attachment access, forEachAttachment, attachments for "
                  "interfaces, account storage, attachments holding resources, iteration-mutation errors.",
    "level_note": "proof (core calculus) + CC. Trusted: Lean kernel; the hand-written calculus (validated by the stream); "
                  "the generator's two renderers in harness/internal/l3sx; the driver.",
    "assumptions": ["programs of the attachment calculus", "the order in which the attachments of one base are destroyed (atree hash order of "
                    "the hidden fields) is not part of the observation: the stream compares them as a set"],
    "trusted_base": ["hand-written model Verif.Model.Lang3.Attach validated by stream attach",
                     "generator + renderers harness/internal/l3sx/attach.go", "harness/internal/l3run", "driver Drv/Attach.lean"],
}
