PROP = {
    "id": "C44",
    "theorem_modules": ["Verif.Properties.C44"],
    "min_theorems": 11,
    "required_theorems": [
        "Verif.Properties.C44.tags_unchanged",
        "Verif.Properties.C44.primitive_codes_unchanged",
        "Verif.Properties.C44.encoded_lengths_unchanged",
        "Verif.Properties.C44.field_orders_unchanged",
        "Verif.Properties.C44.tags_distinct",
        "Verif.Properties.C44.cbor_roundtrip",
        "Verif.Properties.C44.roundtrip",
        "Verif.Properties.C44.statictype_roundtrip",
        "Verif.Properties.C44.encode_injective",
    ],
    "gen": [["vtool", "gen-storedtags"]],
    "tool_files": ["tool_storedtags.go"],
    "streams": [
        {"name": "stored", "driver": "drv_stored",
         "quick": {"n": 4000}, "thorough": {"n": 60000, "seeds": 4}},
    ],
    "exhaustive": False,
    "technique": "Lean 4 proof over a code-shaped model of the storage codec + fact extraction pinned by decide + "
                 "correspondence stream with a committed golden corpus",
    "level_text": "Lean theorems about a port of interpreter/encode.go + decode.go (storable values and static types over a "
                  "CBOR item model): decode(encode v) = v with identical re-encoding, for every well-formed value; the CBOR "
                  "tag numbers, primitive type codes, array lengths and field orders regenerated from the current sources "
                  "equal the pinned tables (decide). Tie: stream `stored` (Go bytes = model bytes, Go decode = model decode, "
                  "re-encode identical, on generated values / types and mutated bytes) and the committed golden corpus "
                  "corpus/stored/golden-*.txt decoded by the current tree and by the model on every run.",
    "level_note": "Containers and composites (atree slabs, inlined arrays / maps) are outside the model. Unicode NFC "
                  "normalisation and grapheme clustering are model parameters.",
    "assumptions": ["fxamacker/cbor StreamEncoder / StreamDecoder behave as the CBOR item model states (exercised by the stream)"],
    "trusted_base": ["hand-written port Verif.Model.Codec.Stored validated by stream stored",
                     "vtool gen-storedtags (go/types constant evaluation, go/ast walk of the Encode functions)",
                     "Go harness cmd/vharness/stream_stored.go", "driver Drv/Stored.lean"],
}
