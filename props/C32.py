PROP = {
    "id": "C32",
    "gen": [["vtool", "gen-numgo"]],
    "tool_files": ["tool_numgo.go", "tool_numgo_eval.go", "tool_numgo_exec.go"],
    "harness_files": ["stream_num.go"],
    "theorem_modules": ["Verif.Properties.C32"],
    "min_theorems": 15,
    "required_theorems": [f"Verif.Properties.C32.C32_{o}" for o in
                          ("plus", "minus", "mul", "neg", "or", "xor", "and", "shl", "shr_partial", "shr_witness",
                           "shr_wrap_witness", "mod_partial", "mod_witness", "div_partial", "words_eq_wordLen")],
    "streams": [
        {"name": "bigmeter", "driver": "drv_bigmeter",
         "quick": {"n": 400}, "thorough": {"n": 8000, "seeds": 3}},
    ],
    "exhaustive": False,
    "technique": "Lean 4 theorems about the metering formulas regenerated from common/metering.go by the semantic "
                 "Go->Lean translator (vtool gen-numgo); tied to the running Int/UInt methods by the `bigmeter` stream",
    "level_text": "For Int and UInt (the only users of the formulas): Lean theorems that the regenerated formula "
                  "(including Go's int wrap-around and the uint64 conversion) is at least 8*len(result.Bits()) for all "
                  "operands that fit in memory (< 2^56 words): + - * unary-minus | ^ & << in full (C32_plus ... C32_shl). "
                  ">> and % under-report on the unchanged tree (known findings): witness theorems on the generated "
                  "definitions plus partial theorems with the exact side condition (C32_shr_partial: a < 0 or "
                  "b/8 <= b/64 + 4; C32_mod_partial: first branch or 2|b| <= |a| + 5); / proved for divisors below the "
                  "100-word threshold (C32_div_partial).  The `bigmeter` stream runs the real methods with a recording "
                  "gauge (word lengths 0..200, word-boundary values, both signs, thresholds 40 / 100 words, shifts up to "
                  "6000 bits) and compares metered amount vs produced size (VIOLATION when less), produced size vs exact "
                  "result, metered amount vs regenerated formula.",
    "level_note": "Partial: / with a divisor of >= 100 words and % in that branch are covered by the stream only (the "
                  "formula is non-linear there).  Trusted: Lean kernel; the translator (validated by the stream); "
                  "math/big modelled as Int, len(x.Bits()) as ceil(bitlen/64); harness and driver.",
    "assumptions": ["operands have fewer than 2^56 words (they exist in memory)", "64-bit platform",
                    "math/big results are normalised (no leading zero words)"],
    "trusted_base": ["translator vtool gen-numgo (validated by stream bigmeter)",
                     "Go harness cmd/vharness/stream_bigmeter.go + stream_num.go", "driver Drv/Bigmeter.lean"],
}
