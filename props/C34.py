PROP = {
    "id": "C34",
    "theorem_modules": ["Verif.Properties.C34"],
    "min_theorems": 11,
    "required_theorems": [
        "Verif.Properties.C34.peephole_jumps",
        "Verif.Properties.C34.peephole_jumps_land",
        "Verif.Properties.C34.simulation_expr_partial",
        "Verif.Properties.C34.simulation_expr_err_partial",
        "Verif.Properties.C34.simulation_stmt_partial",
        "Verif.Properties.C34.simulation_body_partial",
        "Verif.Properties.C34.simulation_call_partial",
        "Verif.Properties.C34.call_depth_witness",
        "Verif.Properties.C34.call_depth_interp_first",
        "Verif.Properties.C34.call_depth_agree_partial",
    ],
    "streams": [
        {"name": "vmeq", "driver": "drv_lang",
         "quick": {"n": 900}, "thorough": {"n": 8000, "seeds": 4}},
        {"name": "peep", "driver": "drv_peep",
         "quick": {"n": 600}, "thorough": {"n": 20000, "seeds": 4}},
    ],
    "harness_files": ["stream_lang.go"],
    "exhaustive": False,
    "technique": "Lean 4 proof (peephole port: jump retargeting; stack-VM model + compiler: forward simulation) + "
                 "three-way Go-vs-Go differential (interpreter, VM, VM+peephole) and model correspondence",
    "level_text": "partial: Lean theorems about (a) a line-by-line port of the peephole pass (every patched jump targets the "
                  "image of its original target, no target inside or at the start of a rewritten window; all instruction "
                  "lists, all pattern tables without jump opcodes) tied by stream `peep` on the real compiler's output, and "
                  "(b) a model compiler + stack machine for muCadence L0: forward simulation proved for the call-free "
                  "fragment - expressions (value and error case: same value, same error class and kind) and statements "
                  "(let/var, assignment, if/else, while with break/continue, return: same control flow, same value, "
                  "same trace, locals agree with the environment), lifted to a whole activation of the step-counting "
                  "machine runFrames, and for whole programs with invocations in statement position (log, assert, user "
                  "functions with at most one parameter, recursion): runVM (compile p) yields the same value and the "
                  "same log trace as run p; see the theorems ending in _partial for what is missing (invocations "
                  "nested in expressions, error outcomes of statements, ??, several parameters, L1/L2). Stream `vmeq`: every generated program runs on the interpreter, the VM and "
                  "the VM with peephole optimisation (hook runtime/verif_hooks.go) from fresh identical ledgers; result "
                  "value, error class and kind, logs and event count are compared with each other (Go-vs-Go, no model "
                  "needed) and with the model for in-fragment programs. Generator families of `vmeq`: L0 and L1 statement / "
                  "expression programs (half of them with the body of `main` inside a function expression, an inner function "
                  "or a capturing closure - in /repo only closures and inner functions execute peephole-optimised code, "
                  "named functions and methods are linked to a copy made before the pass), an iteration family (for / "
                  "for-index / for over a reference / map / filter / forEachKey, nested iterations over the same container, "
                  "mutations inside and after the inner iteration) and a closure-peephole family (windows the patterns "
                  "match but decline - optional-, supertype- and path-typed constants - and rewritten windows in front of "
                  "conditional expressions, if/else, loops, switch, ??, if-let). Stream `peep` feeds real instruction lists "
                  "(named functions, methods, function expressions, inner functions) and synthetic lists (random tokens; "
                  "structured lists of rewritten / declined windows with jumps to unit boundaries) to the Lean port. "
                  "Call depth: a `vmeq` family runs recursion near a small configured StackDepthLimit; the engines count "
                  "differently (known finding call-depth-counts-argument-nesting: the interpreter counts every invocation "
                  "expression from before its arguments are evaluated, natives included, the VM counts frames of compiled "
                  "functions); an abstract model of the two counters proves the divergence (call_depth_witness), its single "
                  "direction (call_depth_interp_first) and agreement for runs without argument-nested or native calls "
                  "(call_depth_agree_partial).",
    "level_note": "proof (fragment) + CC; the real compiler is tied by behaviour (stream vmeq), the peephole port on real "
                  "instruction lists (stream peep).",
    "assumptions": ["muCadence fragment L0/L1 for the model comparison; the Go-vs-Go comparison covers whatever the generator emits"],
    "trusted_base": ["hand-written models Verif.Model.Lang.* validated by streams vmeq / peep",
                     "Verif.Model.Lang.CallDepth (call-depth counters of both engines over an abstract invocation forest): "
                     "written from the source, not run by a driver; its predictions for nested/plain recursion at limit 10 "
                     "are the corpus lines corpus/vmeq/known-call-depth-counts-argument-nesting.txt",
                     "bridge harness/internal/sx", "drivers Drv/Lang.lean, Drv/Peep.lean",
                     "hook /repo/runtime/verif_hooks.go (peephole switch, build tag verif)"],
}
