PROP = {
    "id": "C08",
    "theorem_modules": ["Verif.Properties.C08"],
    "min_theorems": 10,
    "required_theorems": [
        "Verif.Properties.C08.rules_unchanged",
        "Verif.Properties.C08.refl",
        "Verif.Properties.C08.never_bot",
        "Verif.Properties.C08.any_top",
        "Verif.Properties.C08.trans_witness",
        "Verif.Properties.C08.trans_partial",
        "Verif.Properties.C08.simple_agree",
        "Verif.Properties.C08.trans_simple_partial",
        "Verif.Properties.C08.trans_covariant_partial",
    ],
    "gen": [["vtool", "gen-rules"]],
    "tool_files": ["tool_rules.go"],
    "streams": [
        {"name": "types", "driver": "drv_types",
         "quick": {"n": 6000}, "thorough": {"n": 150000, "seeds": 4}},
    ],
    "exhaustive": False,
    "technique": "Lean 4 model that interprets the rule data regenerated from rules.yaml (TR) + correspondence stream over six Go subtype relations",
    "level_text": "The Lean subtype relation is the interpretation of the rule data regenerated from tools/subtype-gen/rules.yaml on every "
                  "run (by the repository's own rules parser) and proved equal to the pinned rules (`rules_unchanged`); theorems about it: "
                  "reflexivity, Never bottom, Any top for all types; the transitivity failure `&[Never] <: &[AnyResource] <: &AnyResource` and "
                  "the run-time/checker disagreement on `Never?` as kernel-checked witnesses; the interpreted rules equal a structured "
                  "relation (parent hierarchy) on the whole 49x49 simple-type table (`simple_agree`, kernel decide); transitivity on the whole "
                  "simple-type lattice (`trans_simple_partial`, all 49^3 triples) and under any stack of array/optional constructors over it "
                  "(`trans_covariant_partial`), besides the trivial region (`trans_partial`). Tied to /repo by the `types` stream: all pairs of 49 simple and 18 nominal types and generated "
                  "pairs / chain-biased triples of structured types (optionals, arrays, dictionaries, references with authorizations, "
                  "composites, interfaces, intersections, functions, capabilities, inclusive ranges) built with the real sema API from a "
                  "universe declared through the real checker; sema.IsSubType, interpreter.IsSubType, IsSubTypeOfSemaType, the hand-written "
                  "and both generated CheckSubTypeWithoutEquality functions and the sema->static->sema round trip must agree with each other "
                  "and with the Lean relation; reflexivity, bounds and transitivity are judged directly on the Go answers.",
    "level_note": "Partial: transitivity is proved for simple types and same-shape covariant containers over them, NOT for the whole algebra "
                  "(shape-changing chains to AnyStruct/AnyResource/HashableStruct, dictionaries, references, nominal types, intersections, "
                  "functions are missing; see the comment at `trans_partial`); it is searched by the stream on chain-biased triples. Function type parameters, legacy intersection types, `Storable` and nested `Any` are outside the "
                  "model. The interpreter follows the code generators' statement-sequence reading of `or` (a plain boolean reading of "
                  "rules.yaml's IntersectionType rule would accept almost everything). Nominal facts (kind, conformance sets) are printed by "
                  "the harness from the real checker's types.",
    "assumptions": ["types are in canonical form (sorted entitlement / conformance / intersection sets) so Equal is structural equality",
                    "fuel 40*(|a|+|b|)+40 suffices (validated by the stream: a shortage would show as a model difference)"],
    "trusted_base": ["rule interpreter Verif.Model.Types.Subtype validated by stream types", "vtool gen-rules (uses /repo's own rules parser)",
                     "Go harness cmd/vharness/stream_types.go", "driver Drv/Types.lean"],
}
