PROP = {
    "id": "C08",
    "theorem_modules": ["Verif.Properties.C08"],
    "min_theorems": 21,
    "required_theorems": [
        "Verif.Properties.C08.rules_unchanged",
        "Verif.Properties.C08.refl",
        "Verif.Properties.C08.never_bot",
        "Verif.Properties.C08.any_top",
        "Verif.Properties.C08.trans_witness",
        "Verif.Properties.C08.trans_partial",
        "Verif.Properties.C08.simple_agree",
        "Verif.Properties.C08.trans_simple_partial",
        "Verif.Properties.C08.trans_covariant_partial",
        "Verif.Properties.C08.fuel_not_monotone_witness",
        "Verif.Properties.C08.struct_agree",
        "Verif.Properties.C08.fuel_stable",
        "Verif.Properties.C08.fuel_monotone_partial",
        "Verif.Properties.C08.trans_struct_partial",
        "Verif.Properties.C08.trans_kindstable_partial",
        "Verif.Properties.C08.trans_witness_contravariant",
        "Verif.Properties.C08.trans_checked_partial",
        "Verif.Properties.C08.runtime_agrees_kindstable_partial",
        "Verif.Properties.C08.equal_intersection_witness",
    ],
    "gen": [["vtool", "gen-rules"]],
    "tool_files": ["tool_rules.go"],
    "streams": [
        {"name": "types", "driver": "drv_types",
         "quick": {"n": 6000}, "thorough": {"n": 150000, "seeds": 4}},
    ],
    "exhaustive": False,
    "technique": "Lean 4 model that interprets the rule data regenerated from rules.yaml (TR) + correspondence stream over six Go subtype relations",
    "level_text": "The Lean subtype relation is the interpretation of the rule data regenerated from tools/subtype-gen/rules.yaml on every "
                  "run (by the repository's own rules parser) and proved equal to the pinned rules (`rules_unchanged`). Theorems, for all types of the "
                  "algebra (simple types, optionals, arrays, dictionaries, references with authorizations, composites, interfaces, intersections, "
                  "function types, capabilities, inclusive ranges; any nesting): reflexivity, Never bottom, Any top; `struct_agree`: on well-formed "
                  "types the interpreted rules, at any fuel from the driver's bound upwards, equal a structured relation `Struct.sub` with one clause "
                  "per constructor (per-rule unfolding lemmas for all 26 rules + induction on size), hence fuel stability (`fuel_stable`, "
                  "`fuel_monotone_partial`; the naive monotonicity from fuel 0 is false, `fuel_not_monotone_witness`); "
                  "`trans_kindstable_partial`: TRANSITIVITY of the interpreted rules over the whole algebra — same-shape chains and shape-changing "
                  "chains into T?, AnyStruct, AnyResource, the attachment tops, HashableStruct, Any — for coherent nominal declarations (conformance "
                  "sets transitively closed), writable authorizations (transitivity of PermitsAccess from M-AUTH), `Any` at most as a whole type, "
                  "under the hypothesis that the sub-most type has no `Never` directly below an optional/array/dictionary constructor in covariant "
                  "position and the super-most type none in contravariant position (function parameters); outside that region transitivity really "
                  "fails: `trans_witness` (&[Never] <: &[AnyResource] <: &AnyResource) and `trans_witness_contravariant` "
                  "(fun(&AnyResource) <: fun(&[AnyResource]) <: fun(&[Never])), both kernel-checked and replayed against Go (known finding). "
                  "`runtime_agrees_kindstable_partial`: the run-time relation (interpreter.IsSubType, which unwraps optionals first) equals the checker's "
                  "relation for every kind-stable, Any-free sub type incl. optionals; outside: the run-time/checker disagreement on `Never?` as witness. "
                  "Also `runtime_agrees_partial`, the 49x49 simple-type table (`simple_agree`) and "
                  "49^3 transitivity table. Tied to /repo by the `types` stream: all pairs of 49 simple and 18 nominal types and generated "
                  "pairs / chain-biased triples of structured types (incl. related function and range types; every pair of entitlement-set "
                  "authorizations over four entitlements at top level, the overlapping same-kind same-size pairs below every constructor and in random types) built with the real sema API from a "
                  "universe declared through the real checker; sema.IsSubType, interpreter.IsSubType, IsSubTypeOfSemaType, the hand-written "
                  "and both generated CheckSubTypeWithoutEquality functions and the sema->static->sema round trip must agree with each other, "
                  "with the interpreted rules AND with the structured relation `Struct.sub` (a disagreement is a MODELDIFF); reflexivity, bounds and "
                  "transitivity are judged directly on the Go answers; a transitivity failure is the known finding only outside the theorem's region.",
    "level_note": "Transitivity is named partial because the unrestricted statement is false (known finding); inside the model nothing else is "
                  "missing. Hypotheses that are not checked per operation by the driver: coherence of the nominal facts (`Coh`, `nomOK`: they are "
                  "printed from one checked program's real sema types) and `IsAuth` of reference authorizations (generator emits non-empty sets). "
                  "Function type parameters, legacy intersection types, `Storable` and nested `Any` are outside the "
                  "model. The interpreter follows the code generators' statement-sequence reading of `or` (a plain boolean reading of "
                  "rules.yaml's IntersectionType rule would accept almost everything). Observed, not a property violation: `I <: {I}` is false "
                  "in every Go relation (an interface is not below the intersection of itself), the model agrees.",
    "assumptions": ["types are in canonical form (sorted entitlement / conformance / intersection sets) so static Equal is structural equality; sema Equal is `semaEq` (structural except effective-set comparison of intersections), both compared with Go on every pair",
                    "fuel 40*(|a|+|b|)+40 suffices: now a theorem (`struct_agree` / `fuel_stable`: any fuel from that bound upwards gives the same answer on well-formed types)"],
    "trusted_base": ["rule interpreter Verif.Model.Types.Subtype validated by stream types", "vtool gen-rules (uses /repo's own rules parser)",
                     "Go harness cmd/vharness/stream_types.go", "driver Drv/Types.lean"],
}
