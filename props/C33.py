PROP = {
    "id": "C33",
    "theorem_modules": ["Verif.Properties.C33"],
    "min_theorems": 5,
    "required_theorems": [
        "Verif.Properties.C33.sort_canonical",
        "Verif.Properties.C33.maprange_inventory_ok",
    ],
    "gen": [["vtool", "gen-maprange"]],
    "tool_files": ["tool_maprange.go"],
    "harness_files": ["stream_exec.go"],
    "streams": [
        {"name": "det", "driver": "drv_det",
         "quick": {"n": 300}, "thorough": {"n": 4000, "seeds": 3}},
    ],
    "exhaustive": False,
    "technique": "Lean 4 proof of the collect-then-sort pattern + fact extraction (go/types) of every range-over-map "
                 "against a pinned classified inventory + re-execution stream (supporting exploration)",
    "level_text": "proof (pattern + inventory) + CC, partial. Lean: sort_canonical — for any two enumerations "
                  "(permutations, distinct keys) of the same finite map, sort-by-key after collecting yields the identical "
                  "sequence (core List.mergeSort; Mathlib only in the proof); the result is sorted and a permutation of "
                  "the input; without the sort the output depends on the enumeration. FX: every `range` over a map-typed "
                  "expression (go/types) in non-test code of runtime, interpreter, sema, stdlib, bbq, encoding, common, "
                  "values, activations, ast, parser (39 sites) equals the pinned inventory, each classified "
                  "collect-then-sort / single-entry / order-insensitive / not-on-execution-path, all carrying "
                  "nolint:maprange. Supporting exploration (not part of the proof): stream `det` executes every generated "
                  "history 3 times from scratch (fresh runtime and ledger, GOMAXPROCS 1/2/all, Go's per-range random map "
                  "order) and compares the full host-visible observation byte for byte (SetValue keys, value digests and "
                  "order, events, logs, result / error kind, the complete error message text with every reported "
                  "sub-error in order, final ledger digest); every commit block must also be in the canonical sorted "
                  "order. Contract-update family (24 histories at quick, each executed 20 times from scratch): a "
                  "contract with 2-8 nested declarations of different kinds (struct, resource, event, enum, struct / "
                  "resource interface, attachment; names against the kind order) is deployed, then invalid updates "
                  "(contracts.update / tryUpdate) remove, re-kind or change several of them at once.",
    "level_note": "Partial: the Go scheduler, atree's parallel FastCommit and Go map iteration are outside any Lean model; "
                  "the classification of each map range is by reading (trusted). Separate processes / CPU affinity "
                  "(taskset, which changes runtime.NumCPU and thus FastCommit's worker count) are not varied by the "
                  "stream; GOMAXPROCS is varied in-process.",
    "assumptions": ["the classification of each map-range site in Verif.Spec.MapRange is correct"],
    "trusted_base": ["pinned classification Verif.Spec.MapRange", "fact extractor cmd/vtool/tool_maprange.go (go/packages + go/types)",
                     "recording host harness/internal/host", "driver Drv/Det.lean"],
}
