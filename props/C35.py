PROP = {
    "id": "C35",
    "theorem_modules": ["Verif.Properties.C35"],
    "min_theorems": 16,
    "required_theorems": [
        "Verif.Properties.C35.byte_limits_ok",
        "Verif.Properties.C35.leb_u32_roundtrip",
        "Verif.Properties.C35.leb_u64_roundtrip",
        "Verif.Properties.C35.leb_i32_roundtrip",
        "Verif.Properties.C35.leb_i64_roundtrip",
        "Verif.Properties.C35.leb_canonical_length",
        "Verif.Properties.C35.leb_canonical_length_signed",
        "Verif.Properties.C35.leb_fixed_length",
        "Verif.Properties.C35.appendUint32_eq_spec",
        "Verif.Properties.C35.appendInt64_eq_spec",
        "Verif.Properties.C35.instr_table_ok",
        "Verif.Properties.C35.instr_table_consistent",
        "Verif.Properties.C35.instr_roundtrip",
        "Verif.Properties.C35.instr_decodeAll_roundtrip",
    ],
    "gen": [["vtool", "gen-lebfacts"], ["vtool", "gen-instr"]],
    "tool_files": ["tool_lebfacts.go", "tool_instr.go"],
    "harness_files": ["c35_gen.go"],
    "streams": [
        {"name": "leb", "driver": "drv_leb",
         "quick": {"n": 4000}, "thorough": {"n": 200000, "seeds": 4}},
        {"name": "instr", "driver": "drv_instr",
         "quick": {"n": 3000}, "thorough": {"n": 60000, "seeds": 3}},
        {"name": "compiledet", "driver": "drv_compiledet",
         "quick": {"n": 30}, "thorough": {"n": 400, "seeds": 2}},
    ],
    "exhaustive": False,
    "technique": "Lean 4 proof over a line-by-line port of bbq/leb128 and a generic instruction codec interpreted over the "
                 "table regenerated from instructions.yml + correspondence streams; compile determinism by re-execution",
    "level_text": "Lean theorems, for all values: LEB128 round trips read(append v ++ rest) = (v, len) for every "
                  "uint32/uint64/int32/int64, encoders = canonical spec encodings, fewest-bytes, fixed-length variant "
                  "(code-shaped model of bbq/leb128 with Go wrap-around; byte limits regenerated from the source); "
                  "instruction codec: decode(encode i) = (i, len) and decodeAll(encodeAll is) = is for every "
                  "instruction of the table regenerated from instructions.yml + the emit*/decode* calls of "
                  "instructions.go + the running opcode constants, for all operands in range and code < 2^16 bytes. "
                  "Tie: streams `leb` (all integers at byte-length boundaries, random, all byte strings <= 2) and "
                  "`instr` (every opcode with random operands built by reflection over the real structs, instruction "
                  "sequences of compiled generated programs, arbitrary bytes): Go bytes = model bytes, Go decode = "
                  "model decode, and the round trip itself is the oracle. Compilation determinism: correspondence "
                  "only (partial) - stream `compiledet` recompiles generated programs 5x in-process and once in a "
                  "fresh process and compares printed program, function/constant/type/global tables and byte code; "
                  "multi-program scenarios (12 at quick: leaf contracts with enums, interface programs importing "
                  "several of them by separate import statements with pre/post conditions using them, a target whose "
                  "types inherit those conditions) compile the whole set 4x and the target 41x against the same "
                  "compiled dependencies and compare printed program (resolved and raw operands), imports, globals, "
                  "constants, types and byte code.",
    "level_note": "Compilation determinism is CC only (partial): no theorem covers the compiler; the generated programs "
                  "are a small typed fragment (interfaces with default functions and conditions, structs, resources, "
                  "enums, closures, loops, containers, string templates). Code >= 2^16 bytes (uint16 instruction "
                  "pointer wraps) is outside the instruction theorems. Trusted: Lean kernel; hand-written ports of "
                  "leb128.go and of the emit*/decode* helpers validated by the streams; vtool extractors; harness and drivers.",
    "assumptions": ["Go uint32/uint64/int32/int64 arithmetic is modelled by Nat/Int with explicit wrap-around"],
    "trusted_base": ["hand-written port Verif.Model.Leb128 validated by stream leb",
                     "hand-written port Verif.Model.Instr (emit*/decode* helpers) validated by stream instr",
                     "vtool gen-lebfacts, gen-instr (go/ast + yaml extraction)",
                     "Go harness cmd/vharness/stream_{leb,instr,compiledet}.go, c35_gen.go", "drivers Drv/{Leb,Instr,Compiledet}.lean"],
}
