PROP = {
    "id": "C35",
    "theorem_modules": ["Verif.Properties.C35"],
    "min_theorems": 9,
    "required_theorems": [
        "Verif.Properties.C35.byte_limits_ok",
        "Verif.Properties.C35.leb_u32_roundtrip",
        "Verif.Properties.C35.leb_u64_roundtrip",
        "Verif.Properties.C35.instr_table_ok",
        "Verif.Properties.C35.instr_table_consistent",
        "Verif.Properties.C35.instr_roundtrip",
        "Verif.Properties.C35.instr_decodeAll_roundtrip",
    ],
    "gen": [["vtool", "gen-lebfacts"], ["vtool", "gen-instr"]],
    "tool_files": ["tool_lebfacts.go", "tool_instr.go"],
    "harness_files": ["c35_gen.go"],
    "streams": [
        {"name": "leb", "driver": "drv_leb",
         "quick": {"n": 4000}, "thorough": {"n": 200000, "seeds": 4}},
        {"name": "instr", "driver": "drv_instr",
         "quick": {"n": 3000}, "thorough": {"n": 60000, "seeds": 3}},
        {"name": "compiledet", "driver": "drv_compiledet",
         "quick": {"n": 30}, "thorough": {"n": 400, "seeds": 2}},
    ],
    "exhaustive": False,
    "technique": "Lean 4 proof over a line-by-line port of bbq/leb128 and a generic instruction codec interpreted over the "
                 "table regenerated from instructions.yml + correspondence streams; compile determinism by re-execution",
    "level_text": "Lean theorems: LEB128 round trips for every uint32/uint64/int32/int64, canonical length, fixed-length "
                  "variant (code-shaped model of bbq/leb128, byte limits regenerated from the source on every run). "
                  "Tie: stream `leb` (all integers at byte-length boundaries, random integers, all byte strings of "
                  "length <= 2, random over-long / truncated strings: Go Append*/Read* = model, and the round trip "
                  "itself is the oracle).",
    "level_note": "Compilation determinism is correspondence-checked only (partial): no theorem covers the compiler. "
                  "Trusted: Lean kernel; hand-written ports validated by the streams; harness and drivers.",
    "assumptions": ["Go uint32/uint64/int32/int64 arithmetic is modelled by Nat/Int with explicit wrap-around"],
    "trusted_base": ["hand-written port Verif.Model.Leb128 validated by stream leb",
                     "vtool gen-lebfacts (go/ast constant extraction)",
                     "Go harness cmd/vharness/stream_leb.go", "driver Drv/Leb.lean"],
}
