PROP = {
    "id": "C17",
    "theorem_modules": ["Verif.Properties.C17"],
    "min_theorems": 6,
    "required_theorems": [
        "Verif.Properties.C17.bytes_nil_iff",
        "Verif.Properties.C17.bytes_roundtrip",
        "Verif.Properties.C17.string_roundtrip_partial",
        "Verif.Properties.C17.fixed_toString_shape",
    ],
    "streams": [
        {"name": "text", "driver": "drv_text",
         "quick": {"n": 400}, "thorough": {"n": 6000, "seeds": 4}},
    ],
    "harness_files": ["stream_conv.go"],
    "exhaustive": False,
    "technique": "Lean 4 proof over a hand port of toString / fromString / toBigEndianBytes / fromBigEndianBytes + correspondence stream",
    "level_text": "Lean theorems about a code-shaped model of the number printers (format/int.go, format/fix.go), the fromString "
                  "parsers (interpreter.StringValueParsers, fixedpoint/parse.go) and the big-endian byte conversions (values/big.go, "
                  "New<T>ValueFromBigEndianBytes), tied to /repo by the `text` stream: all 24 numeric types x boundary-biased values "
                  "(toString, toBigEndianBytes and both round trips), strings from the literal grammar with perturbations (signs, leading "
                  "zeros, underscores, whitespace, excess / missing fractional digits, out-of-range, empty), byte arrays of every length "
                  "0..size+1, through the Go functions directly and through Cadence scripts in both engines; an independent grammar spec "
                  "(sign iff signed, fraction iff fixed-point, then representability) judges the Go answers.",
    "level_note": "Trusted: Lean kernel; the hand-written port (validated by the stream); harness and driver; strconv.ParseInt/ParseUint, "
                  "big.Int.SetString/Text/Bytes/SetBytes are modelled by their contracts. Addresses, hex strings and paths are not covered.",
    "assumptions": ["strings are ASCII in the model (non-ASCII inputs are skipped by the driver)"],
    "trusted_base": ["hand-written port Verif.Model.Text validated by stream text", "Go harness cmd/vharness/stream_text.go + internal/numv", "driver Drv/Text.lean"],
}
